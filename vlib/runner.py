"""Common harness for every check: work dir, seed/tier, evidence, known findings, VIOLATION lines, exit codes.

Exit codes: 0 = property held on everything explored (possibly with KNOWN-FINDING lines),
            1 = violation not listed in known_findings.json,
            2 = machinery failure (nothing is claimed).
"""
import os, sys, json, time, hashlib, shutil, traceback, subprocess, signal

ROOT = os.path.dirname(os.path.dirname(os.path.abspath(__file__)))
REPO = os.environ.get("VERIF_REPO", "/repo")
PY = "/venv/bin/python"


class Machinery(Exception):
    pass


class Ctx:
    def __init__(self, pid, tier, seed, level="model_checking"):
        self.pid, self.tier, self.seed, self.level = pid, tier, seed, level
        self.t0 = time.time()
        self.work = os.path.join(ROOT, ".work", "%s_%s_%d" % (pid, tier, os.getpid()))
        shutil.rmtree(self.work, ignore_errors=True)
        os.makedirs(self.work)
        self.states = 0
        self.transitions = 0
        self.tlc_runs = []
        self.traces_validated = 0
        self.evaluations = 0
        self.nontrivial = set()
        self.samples = []
        self.rule = ""
        self.assumptions = []
        self.extra = {}
        self.violations = []      # (what, replay_path)
        self.known_hit = []       # (finding id, what)
        self.notes = []
        self.exhaustive = None
        self.findings = load_findings()

    # ---- TLC bookkeeping
    def add_tlc(self, res, label):
        self.states += res.distinct
        self.transitions += res.generated
        self.tlc_runs.append(dict(label=label, distinct=res.distinct, generated=res.generated, depth=res.depth,
                                  wall_s=round(res.wall, 2),
                                  violation=(list(res.violation) if res.violation else None),
                                  actions_covered=len([a for a, (d, t) in res.coverage.items() if t > 0]),
                                  actions_never_taken=res.zero_actions()))

    def require_spec_ok(self, res, label, allow_zero=()):
        """A TLC violation of a design-level property on the unchanged spec, or a vacuous action, is a
        machinery failure (the spec is part of /verif, not of the code under test)."""
        self.add_tlc(res, label)
        if res.violation:
            raise Machinery("TLC reports %s in %s (spec-level): %s" % (res.violation, label,
                            json.dumps([[a, repr(s)[:300]] for a, s in res.trace[-3:]])))
        zero = [a for a in res.zero_actions() if a not in allow_zero]
        if zero:
            raise Machinery("vacuous: actions never taken in %s: %s" % (label, zero))

    # ---- cases
    def case(self, key=None, nontrivial=True):
        self.evaluations += 1
        if key is not None and nontrivial:
            self.nontrivial.add(key if isinstance(key, (str, int)) else hashlib.md5(repr(key).encode()).hexdigest())

    def sample(self, s, cap=6):
        if len(self.samples) < cap:
            self.samples.append(s)

    # ---- verdicts
    def violation(self, what, replay, signature=None):
        """Record a violation. `signature` is a dict of facts about this failing case that open
        known-findings entries are matched against."""
        kf = match_finding(self.findings, self.pid, signature or {})
        if kf is not None:
            if kf["id"] not in [k for k, _ in self.known_hit]:
                self.known_hit.append((kf["id"], kf["what"]))
            return False
        d = os.path.join(ROOT, "replays", self.pid)
        os.makedirs(d, exist_ok=True)
        body = json.dumps(dict(property=self.pid, what=what, signature=signature, replay=replay, seed=self.seed,
                               tier=self.tier), indent=1, default=repr)
        path = os.path.join(d, hashlib.md5(body.encode()).hexdigest()[:12] + ".json")
        with open(path, "w") as fh:
            fh.write(body)
        self.violations.append((what, path))
        return True

    def finish(self):
        for kid, what in self.known_hit:
            print("KNOWN-FINDING: property=%s %s: %s" % (self.pid, kid, what))
        for what, path in self.violations[:20]:
            print("VIOLATION property=%s replay=%s" % (self.pid, path))
            print("  " + what[:600])
        cov = dict(states=self.states, transitions=self.transitions,
                   traces_validated_against_impl=self.traces_validated,
                   evaluations=self.evaluations, distinct_nontrivial=len(self.nontrivial),
                   rule=self.rule, samples=self.samples or ["(none)"], tlc_runs=self.tlc_runs,
                   known_findings_reproduced=[k for k, _ in self.known_hit], notes=self.notes)
        if self.exhaustive is not None:
            cov["exhaustive"] = bool(self.exhaustive)
        cov.update(self.extra)
        ev = dict(property_id=self.pid, tier=self.tier, seed=self.seed, level=self.level, coverage=cov,
                  assumptions=self.assumptions, wall_s=round(time.time() - self.t0, 2),
                  violations=len(self.violations))
        evdir = os.environ.get("VERIF_DEV_EVIDENCE_DIR") or os.path.join(ROOT, "evidence")     # (dev: seed sweeps write elsewhere)
        os.makedirs(evdir, exist_ok=True)
        tmp = os.path.join(evdir, self.pid + ".json.tmp")
        with open(tmp, "w") as fh:
            json.dump(ev, fh, indent=1, default=repr)
        os.replace(tmp, os.path.join(evdir, self.pid + ".json"))
        shutil.rmtree(self.work, ignore_errors=True)
        print("%s %s: evaluations=%d distinct_nontrivial=%d states=%d traces=%d violations=%d known=%d wall=%.1fs" % (
            self.pid, self.tier, self.evaluations, len(self.nontrivial), self.states, self.traces_validated,
            len(self.violations), len(self.known_hit), time.time() - self.t0))
        return 1 if self.violations else 0


def load_findings():
    p = os.path.join(ROOT, "known_findings.json")
    if not os.path.exists(p):
        return dict(open=[], fixed=[])
    return json.load(open(p))


def match_finding(findings, pid, sig):
    """An open finding matches when the property is listed and every key of its 'signature' equals the
    corresponding fact of the failing case (lists = any-of)."""
    for f in findings.get("open", []):
        if pid not in f["properties"]:
            continue
        ok = True
        for k, v in f["signature"].items():
            got = sig.get(k, None)
            if isinstance(v, list):
                if got not in v:
                    ok = False
            elif got != v:
                ok = False
        if ok:
            return f
    return None


def main(pid, run, level="model_checking"):
    import argparse
    ap = argparse.ArgumentParser()
    ap.add_argument("--tier", default=os.environ.get("VERIF_TIER", "quick"))
    ap.add_argument("--replay", default=None)
    a = ap.parse_args(sys.argv[2:] if len(sys.argv) > 1 and sys.argv[1] == pid else None)
    seed = int(os.environ.get("VERIF_SEED", "0") or 0)
    ctx = Ctx(pid, a.tier, seed, level)
    ctx.replay = a.replay
    try:
        run(ctx)
        rc = ctx.finish()
    except BaseException as ex:
        traceback.print_exc()
        print("MACHINERY-FAILURE property=%s %s" % (pid, str(ex)[:2000]))
        shutil.rmtree(ctx.work, ignore_errors=True)
        rc = 2
    sys.stdout.flush()
    return rc


def run_child(argv, cwd=None, env=None, timeout=120, out_path=None, inp=None):
    """Run a child in its own session, output to a file, kill the whole group afterwards. Returns (rc, output)."""
    e = dict(os.environ)
    e["PYTHONHASHSEED"] = "0"
    e["PYTHONPATH"] = REPO + (":" + ROOT)
    if env:
        e.update(env)
    close = False
    if out_path is None:
        import tempfile
        fd, out_path = tempfile.mkstemp(dir=os.path.join(ROOT, ".work"), suffix=".out")
        os.close(fd)
        close = True
    with open(out_path, "w") as fh:
        p = subprocess.Popen(argv, cwd=cwd or REPO, env=e, stdin=subprocess.DEVNULL if inp is None else subprocess.PIPE,
                             stdout=fh, stderr=subprocess.STDOUT, start_new_session=True)
        try:
            if inp is not None:
                p.communicate(inp, timeout=timeout)
            else:
                p.wait(timeout=timeout)
            rc = p.returncode
        except subprocess.TimeoutExpired:
            rc = -999
        try:
            os.killpg(p.pid, signal.SIGKILL)
        except (ProcessLookupError, PermissionError):
            pass
        try:
            p.wait(timeout=10)
        except Exception:
            pass
    out = open(out_path, errors="replace").read()
    if close:
        os.remove(out_path)
    return rc, out
