"""./vcheck replay <path>: re-execute a stored violation / case deterministically and print what happened."""
import sys, os, json


def main():
    path = sys.argv[1]
    r = json.load(open(path))
    rp = r.get("replay") or {}
    print("property:", r.get("property"))
    print("what:", r.get("what"))
    eng = rp.get("engine", "")
    if eng == "E-SIM" and "case" in rp:
        sys.path.insert(0, os.environ.get("VERIF_REPO", "/repo"))
        from engine.sim import harness
        case = dict(rp["case"])
        case["keep_decisions"] = True
        real = sys.stdout
        dn = open(os.devnull, "w")
        sys.stdout = dn
        sys.stderr = dn
        out = harness.run_case(case)
        sys.stdout = real
        print("scenario:", json.dumps(case["scn"]))
        print("policy:", json.dumps(case["policy"]), "seed", case["seed"])
        print("--- observation trace")
        for e in out["trace"]:
            print("  ", {k: v for k, v in e.items() if k not in ("mro", "eid", "args")})
        if "-v" in sys.argv:
            print("--- decisions (thread, pending operation, outcome)")
            for d in out["decisions"]:
                print("  ", d)
        else:
            print("--- last 60 decisions")
            for d in out["decisions"][-60:]:
                print("  ", d)
        print("end:", out.get("end"), "blocked:", out.get("blocked"), "died:", out.get("died"), "pending:", out.get("pending"))
        sys.stdout.flush()
        os._exit(0)
    else:
        print(json.dumps(rp, indent=1)[:6000])
        print("(re-run: %s)" % rp.get("how", "see the check of this property"))


if __name__ == "__main__":
    main()
