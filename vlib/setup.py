"""./vcheck setup: offline sanity of the framework. SANY-parses every spec, checks that python imports loky from
/repo, creates /verif/.work."""
import os, sys, glob, shutil, subprocess
from . import tlc, runner


def main():
    work = os.path.join(runner.ROOT, ".work", "setup")
    shutil.rmtree(work, ignore_errors=True)
    os.makedirs(work)
    tlc.stage(work)
    bad = 0
    mods = sorted(os.path.basename(f)[:-4] for f in glob.glob(os.path.join(tlc.SPECS, "*.tla")))
    import concurrent.futures as cf

    def one(m):
        try:
            tlc.sany(work, m)
            return m, None
        except Exception as ex:
            return m, str(ex)
    with cf.ThreadPoolExecutor(8) as ex:
        for m, err in ex.map(one, mods):
            if err:
                bad += 1
                print("SANY FAIL", m, err[-800:])
    print("parsed %d TLA+ modules, %d failures" % (len(mods), bad))
    rc, out = runner.run_child([runner.PY, "-c", "import loky,sys;print(loky.__file__)"], timeout=60)
    print("loky:", out.strip())
    if rc != 0 or not out.strip().startswith(runner.REPO):
        print("loky is not imported from", runner.REPO)
        bad += 1
    shutil.rmtree(work, ignore_errors=True)
    os.makedirs(os.path.join(runner.ROOT, "evidence"), exist_ok=True)
    sys.exit(1 if bad else 0)


if __name__ == "__main__":
    main()
