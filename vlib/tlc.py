"""Thin, defensive wrapper around TLC (tla2tools 1.8): run, parse summary / coverage / counterexample,
simulate-to-files, dot dump.  Everything is written under a caller-supplied work directory."""
import os, re, subprocess, shutil, time, json, glob, signal
from . import tlaparse

JAR = "/opt/veriftools/tla/tla2tools.jar:/opt/veriftools/tla/CommunityModules-deps.jar"
SPECS = os.path.join(os.path.dirname(os.path.dirname(os.path.abspath(__file__))), "specs")


class TLCError(Exception):
    """machinery failure (parse error, TLC crashed, timeout)"""


class Result:
    def __init__(self):
        self.generated = self.distinct = self.depth = 0
        self.violation = None          # ('invariant', name) | ('deadlock', None) | ('temporal', None) | ('assert', msg)
        self.trace = []                # [(action_label, state_dict)]
        self.coverage = {}             # action name -> (distinct, total)
        self.out = ""
        self.prints = []               # PrintT'd values (raw strings)
        self.wall = 0.0
        self.ok = True
        self.cmd = ""

    def zero_actions(self):
        return sorted(a for a, (d, t) in self.coverage.items() if t == 0)


def _java(args, cwd, env=None, timeout=3600, heap="8g", dfs=False):
    e = dict(os.environ)
    e.pop("JAVA_TOOL_OPTIONS", None)
    if env:
        e.update(env)
    cmd = ["java", "-XX:+UseParallelGC", "-Xmx" + heap]
    if dfs:
        cmd.append("-Dtlc2.tool.queue.IStateQueue=StateDeque")
    cmd += ["-cp", JAR] + args
    t0 = time.time()
    p = subprocess.Popen(cmd, cwd=cwd, env=e, stdout=subprocess.PIPE, stderr=subprocess.STDOUT,
                         start_new_session=True, text=True, errors="replace")
    try:
        out, _ = p.communicate(timeout=timeout)
    except subprocess.TimeoutExpired:
        try:
            os.killpg(p.pid, signal.SIGKILL)
        except ProcessLookupError:
            pass
        out, _ = p.communicate()
        raise TLCError("TLC timeout after %ss: %s\n%s" % (timeout, " ".join(cmd), out[-2000:]))
    return p.returncode, out, time.time() - t0, " ".join(cmd)


def stage(workdir, *modules):
    """Copy spec modules (and everything else in specs/ they may EXTEND) into workdir."""
    os.makedirs(workdir, exist_ok=True)
    for f in glob.glob(os.path.join(SPECS, "*.tla")):
        shutil.copy(f, workdir)
    for f in glob.glob(os.path.join(SPECS, "*.cfg")):
        shutil.copy(f, workdir)


def sany(workdir, module):
    rc, out, _, _ = _java(["tla2sany.SANY", module + ".tla"], workdir, timeout=120)
    if rc != 0 or "Semantic errors" in out or "Parse Error" in out or "*** Errors" in out or "Fatal errors" in out:
        raise TLCError("SANY failed for %s:\n%s" % (module, out[-3000:]))
    return True


_state_hdr = re.compile(r"^State (\d+): (.*)$", re.M)


def _parse_trace(out):
    """Counterexample trace: 'State n: <Action line.. of module M>' followed by conjuncts."""
    ms = list(_state_hdr.finditer(out))
    tr = []
    for i, m in enumerate(ms):
        end = ms[i + 1].start() if i + 1 < len(ms) else len(out)
        body = out[m.end():end]
        # body ends at blank line
        body = body.split("\n\n")[0]
        lab = m.group(2).strip()
        am = re.match(r"<(\w+)", lab)
        act = am.group(1) if am else lab
        if "Stuttering" in lab:
            continue
        try:
            st = tlaparse.parse_state(body.strip())
        except Exception as ex:  # pragma: no cover
            raise TLCError("cannot parse counterexample state: %s\n%s" % (ex, body[:500]))
        tr.append((act, st))
    return tr


def parse_output(out, res=None):
    res = res or Result()
    res.out = out
    m = re.search(r"(\d+) states generated, (\d+) distinct states found, (\d+) states left on queue", out)
    if m:
        res.generated, res.distinct = int(m.group(1)), int(m.group(2))
    m = re.search(r"The depth of the complete state graph search is (\d+)", out)
    if m:
        res.depth = int(m.group(1))
    m = re.search(r"Error: Invariant (\w+) is violated", out)
    if m:
        res.violation = ("invariant", m.group(1))
    elif re.search(r"Error: Action property (\w+)", out):
        res.violation = ("action_property", re.search(r"Error: Action property (\w+)", out).group(1))
    elif "Error: Deadlock reached" in out:
        res.violation = ("deadlock", None)
    elif "Temporal properties were violated" in out:
        res.violation = ("temporal", None)
    elif "The first argument of Assert evaluated to FALSE" in out:
        mm = re.search(r"The first argument of Assert evaluated to FALSE; the second argument was:\n(.*)", out)
        res.violation = ("assert", mm.group(1) if mm else "")
    elif re.search(r"Error: The postcondition|POSTCONDITION.*(violated|false)", out, re.I):
        res.violation = ("postcondition", None)
    if res.violation:
        res.trace = _parse_trace(out)
    # coverage
    for m in re.finditer(r"^<(\w+) line \d+, col \d+ to line \d+, col \d+ of module (\w+)>: (\d+):(\d+)", out, re.M):
        name = m.group(1)
        d, t = int(m.group(3)), int(m.group(4))
        if name in res.coverage:
            od, ot = res.coverage[name]
            d, t = od + d, ot + t
        res.coverage[name] = (d, t)
    return res


def check(workdir, module, cfg, workers=16, timeout=3600, coverage=True, deadlock=None, env=None,
          extra=None, heap="8g", dfs=False, expect_violation=False):
    """Run TLC in model-checking mode. Raises TLCError for machinery failures; property violations are returned."""
    meta = os.path.join(workdir, "meta_%s_%d" % (os.path.basename(cfg).replace(".", "_"), os.getpid()))
    args = ["tlc2.TLC", "-workers", str(workers), "-metadir", meta, "-noGenerateSpecTE", "-config", cfg]
    if coverage:
        args += ["-coverage", "1"]
    if deadlock is False:
        args += ["-deadlock"]
    if extra:
        args += extra
    args += [module + ".tla"]
    rc, out, wall, cmd = _java(args, workdir, env=env, timeout=timeout, heap=heap, dfs=dfs)
    shutil.rmtree(meta, ignore_errors=True)
    res = parse_output(out)
    res.wall, res.cmd = wall, cmd
    finished = "Model checking completed" in out or "Finished in" in out
    if res.violation is None and (rc != 0 or not finished):
        raise TLCError("TLC failed (rc=%s) for %s/%s:\n%s" % (rc, module, cfg, out[-4000:]))
    if res.violation is None and res.distinct == 0:
        raise TLCError("TLC explored no state for %s/%s:\n%s" % (module, cfg, out[-2000:]))
    res.ok = res.violation is None
    return res


def simulate(workdir, module, cfg, num, depth, seed=0, timeout=1200, env=None, tag="sim"):
    """tlc -simulate file=...: returns list of behaviours, each a list of (action, state)."""
    outdir = os.path.join(workdir, "%s_%d" % (tag, os.getpid()))
    shutil.rmtree(outdir, ignore_errors=True)
    os.makedirs(outdir)
    meta = os.path.join(workdir, "meta_sim_%d" % os.getpid())
    args = ["tlc2.TLC", "-workers", "1", "-metadir", meta, "-noGenerateSpecTE", "-config", cfg,
            "-deadlock", "-simulate", "file=%s/tr,num=%d" % (outdir, num), "-depth", str(depth), "-seed", str(seed),
            module + ".tla"]
    rc, out, wall, cmd = _java(args, workdir, env=env, timeout=timeout)
    shutil.rmtree(meta, ignore_errors=True)
    if "Error:" in out and "Invariant" not in out and "Deadlock" not in out:
        # simulation mode stops with 'Progress' lines; genuine errors are machinery failures
        if not re.search(r"The number of states generated", out) and not os.listdir(outdir):
            raise TLCError("TLC -simulate failed for %s/%s:\n%s" % (module, cfg, out[-3000:]))
    behs = []
    files = sorted(glob.glob(outdir + "/tr*"), key=lambda f: [int(x) for x in re.findall(r"\d+", os.path.basename(f))])
    for f in files:
        behs.append(parse_sim_file(open(f).read()))
    shutil.rmtree(outdir, ignore_errors=True)
    res = parse_output(out)
    res.wall, res.cmd = wall, cmd
    return behs, res


_sim_state = re.compile(r"\\\* (?P<lab><[^>]*>|[^\n]*)\nSTATE_(\d+) ==[ ]*\n", re.M)


def parse_sim_file(txt):
    ms = list(_sim_state.finditer(txt))
    beh = []
    for i, m in enumerate(ms):
        end = ms[i + 1].start() if i + 1 < len(ms) else len(txt)
        body = txt[m.end():end].strip()
        # cut trailing separators / comments
        body = re.split(r"\n\s*\n", body)[0]
        lab = m.group("lab")
        am = re.match(r"<(\w+)", lab)
        act = am.group(1) if am else lab.strip()
        beh.append((act, tlaparse.parse_state(body)))
    return beh


def dump_dot(workdir, module, cfg, timeout=1200, env=None, workers=1):
    """Exhaustive run with -dump dot,actionlabels. Returns (nodes: id->state, edges: [(src,dst,label)], inits, Result)."""
    base = os.path.join(workdir, "graph_%d" % os.getpid())
    meta = os.path.join(workdir, "meta_dot_%d" % os.getpid())
    args = ["tlc2.TLC", "-workers", str(workers), "-metadir", meta, "-noGenerateSpecTE", "-config", cfg,
            "-dump", "dot,actionlabels", base, module + ".tla"]
    rc, out, wall, cmd = _java(args, workdir, env=env, timeout=timeout)
    shutil.rmtree(meta, ignore_errors=True)
    res = parse_output(out)
    res.wall, res.cmd = wall, cmd
    dotf = base + ".dot"
    if not os.path.exists(dotf):
        raise TLCError("no dot dump produced:\n" + out[-3000:])
    nodes, edges, inits = {}, [], set()
    node_re = re.compile(r'^(-?\d+) \[label="((?:[^"\\]|\\.)*)"')
    edge_re = re.compile(r'^(-?\d+) -> (-?\d+) \[label="((?:[^"\\]|\\.)*)"')
    with open(dotf) as fh:
        for line in fh:
            line = line.rstrip("\n")
            m = edge_re.match(line)
            if m:
                edges.append((m.group(1), m.group(2), m.group(3).replace('\\"', '"').replace("\\\\", "\\")))
                continue
            m = node_re.match(line)
            if m:
                lab = m.group(2).replace("\\n", "\n").replace('\\"', '"').replace("\\\\", "\\")
                nodes[m.group(1)] = tlaparse.parse_state(lab)
                if "style = filled" in line:
                    inits.add(m.group(1))
    os.remove(dotf)
    if res.violation is None and rc != 0:
        raise TLCError("TLC -dump failed rc=%s:\n%s" % (rc, out[-3000:]))
    return nodes, edges, inits, res


def kill_stray():
    subprocess.run(["pkill", "-9", "-f", "tlc2[.]TLC"], stdout=subprocess.DEVNULL, stderr=subprocess.DEVNULL)


def apalache(workdir, module, init, inv, length, timeout=1500):
    """apalache-mc check --init=.. --inv=.. --length=..; returns "NoError" | "Error" | "Unknown" (tool problem / time-out)"""
    import subprocess, shutil as _sh
    exe = _sh.which("apalache-mc")
    if not exe:
        return "Unknown", "apalache-mc not found"
    out_dir = os.path.join(workdir, "apa_%s_%s_%d" % (module, inv, length))
    try:
        p = subprocess.run(["timeout", "-k", "10", str(timeout), exe, "check", "--init=" + init, "--inv=" + inv, "--length=%d" % length,
                            "--out-dir=" + out_dir, module + ".tla"], cwd=workdir, stdout=subprocess.PIPE, stderr=subprocess.STDOUT,
                           stdin=subprocess.DEVNULL, text=True)
        out = p.stdout
    except Exception as ex:
        return "Unknown", str(ex)
    finally:
        _sh.rmtree(out_dir, ignore_errors=True)
    if "The outcome is: NoError" in out:
        return "NoError", out[-600:]
    if "The outcome is: Error" in out:
        return "Error", out[-1500:]
    return "Unknown", out[-1500:]
