"""Parser for TLA+ values and states as printed by TLC (counterexamples, -simulate files, -dump).

Values map to Python: ints, bool, str, tuple (sequences), frozenset (sets), dict-like FrozenDict
(records and functions), ModelValue (bare identifiers).
"""
import re


class ModelValue(str):
    def __repr__(self):
        return "MV(%s)" % str.__str__(self)


class FrozenDict(dict):
    def __hash__(self):
        return hash(frozenset(self.items()))

    def __getattr__(self, k):
        try:
            return self[k]
        except KeyError:
            raise AttributeError(k)


_tok = re.compile(r"""\s*(?:
    (?P<str>"(?:[^"\\]|\\.)*") |
    (?P<num>-?\d+) |
    (?P<op><<|>>|\|->|:>|@@|\.\.|[\[\](){},]) |
    (?P<id>[A-Za-z_][A-Za-z0-9_!]*)
)""", re.X)


def tokenize(s):
    pos, out = 0, []
    n = len(s)
    while pos < n:
        m = _tok.match(s, pos)
        if not m:
            if s[pos:].strip() == "":
                break
            raise ValueError("cannot tokenize at %r" % s[pos:pos + 40])
        pos = m.end()
        k = m.lastgroup
        out.append((k, m.group(k)))
    return out


class _P:
    def __init__(self, toks):
        self.t, self.i = toks, 0

    def peek(self):
        return self.t[self.i] if self.i < len(self.t) else (None, None)

    def eat(self, v=None):
        k, x = self.peek()
        if v is not None and x != v:
            raise ValueError("expected %r got %r at %d" % (v, x, self.i))
        self.i += 1
        return k, x

    def value(self):
        k, x = self.peek()
        if k == "str":
            self.eat()
            return bytes(x[1:-1], "utf-8").decode("unicode_escape")
        if k == "num":
            self.eat()
            v = int(x)
            if self.peek()[1] == "..":
                self.eat()
                hi = self.value()
                return frozenset(range(v, hi + 1))
            return v
        if k == "id":
            self.eat()
            if x == "TRUE":
                return True
            if x == "FALSE":
                return False
            return ModelValue(x)
        if x == "<<":
            self.eat()
            items = []
            while self.peek()[1] != ">>":
                items.append(self.value())
                if self.peek()[1] == ",":
                    self.eat()
            self.eat(">>")
            return tuple(items)
        if x == "{":
            self.eat()
            items = []
            while self.peek()[1] != "}":
                items.append(self.value())
                if self.peek()[1] == ",":
                    self.eat()
            self.eat("}")
            return frozenset(items)
        if x == "[":
            self.eat()
            d = FrozenDict()
            while self.peek()[1] != "]":
                _, key = self.eat()
                self.eat("|->")
                d[key] = self.value()
                if self.peek()[1] == ",":
                    self.eat()
            self.eat("]")
            return d
        if x == "(":
            self.eat()
            d = FrozenDict()
            while True:
                key = self.value()
                self.eat(":>")
                d[key] = self.value()
                if self.peek()[1] == "@@":
                    self.eat()
                    continue
                break
            self.eat(")")
            return d
        raise ValueError("unexpected token %r at %d" % (x, self.i))


def parse_value(s):
    p = _P(tokenize(s))
    v = p.value()
    if p.i != len(p.t):
        raise ValueError("trailing tokens in %r" % s[:80])
    return v


_conj = re.compile(r"^/\\ ([A-Za-z_][A-Za-z0-9_]*) = ", re.M)


def parse_state(text):
    """text: '/\\ x = 1\n/\\ y = <<..>>' (values may span lines)."""
    ms = list(_conj.finditer(text))
    st = FrozenDict()
    if not ms:
        # single-variable state printed as 'x = 1'
        m = re.match(r"\s*([A-Za-z_][A-Za-z0-9_]*) = (.*)", text, re.S)
        if m:
            st[m.group(1)] = parse_value(m.group(2))
        return st
    for i, m in enumerate(ms):
        end = ms[i + 1].start() if i + 1 < len(ms) else len(text)
        st[m.group(1)] = parse_value(text[m.end():end])
    return st


def to_py(v):
    """Convert parsed value to plain JSON-able Python (sets -> sorted lists, tuples -> lists)."""
    if isinstance(v, (frozenset, set)):
        return sorted((to_py(x) for x in v), key=repr)
    if isinstance(v, tuple):
        return [to_py(x) for x in v]
    if isinstance(v, dict):
        return {str(k): to_py(x) for k, x in v.items()}
    if isinstance(v, ModelValue):
        return str(v)
    return v
