"""C11 - the resource tracker's reference counts are exact.

spec -> code : every transition of the exhaustive state graph of ResourceTracker.tla (quick constants) is replayed
               into the real resource_tracker.main(fd) (path from the initial state + the transition + EOF sweep),
               valid requests being produced by the real client API; per-line outputs compared.
               thorough: additionally long TLC -simulate behaviours over a larger alphabet.
code -> spec : random byte streams (incl. garbage) are fed to the real main(fd); the recorded per-line outputs are
               validated by TLC against Trace_ResourceTracker.tla.
"""
import os, sys, json, random, collections
sys.path.insert(0, os.path.dirname(os.path.dirname(os.path.abspath(__file__))))
from vlib import runner, tlc, tlaparse
import concurrent.futures as cf

CHILD = os.path.join(runner.ROOT, "engine/pure/tracker_child.py")


import re as _re


def enc(f):
    """TLA+ string literals have no \\u escapes: fields with unusual characters are replaced, injectively, by a hex token"""
    return f if _re.fullmatch(r"[A-Za-z0-9_ /.\-]*", f) else "~" + f.encode("utf-8", "surrogatepass").hex() + "~"


def keyset(v):
    return [[k[0], list(k[1])] for k in sorted(v, key=repr)]


def exp_of(state):
    c = state["cleaned"]
    return [keyset(c[0]), keyset(c[1]), bool(state["reported"])]


def label_line(lab):
    if lab == "Eof":
        return None
    assert lab.startswith("Consume("), lab
    return list(tlaparse.parse_value(lab[len("Consume("):-1]))


def run_children(ctx, mode, cases, tag):
    nsh = min(16, max(1, len(cases) // 50))
    files = []
    for k in range(nsh):
        f = os.path.join(ctx.work, "%s_in_%d.jsonl" % (tag, k))
        with open(f, "w") as fh:
            for c in cases[k::nsh]:
                fh.write(json.dumps(c) + "\n")
        files.append(f)

    def one(k):
        of = os.path.join(ctx.work, "%s_out_%d.json" % (tag, k))
        rc, out = runner.run_child([runner.PY, CHILD, mode, files[k], of], timeout=1800,
                                   out_path=os.path.join(ctx.work, "%s_child_%d.log" % (tag, k)))
        if rc != 0 or not os.path.exists(of):
            raise runner.Machinery("tracker_child failed rc=%s: %s" % (rc, out[-1500:]))
        return json.load(open(of))
    with cf.ThreadPoolExecutor(nsh) as ex:
        outs = list(ex.map(one, range(nsh)))
    if sum(o["n"] for o in outs) != len(cases):
        raise runner.Machinery("children processed %d of %d cases" % (sum(o["n"] for o in outs), len(cases)))
    res = []
    for o in outs:
        res += o["out"]
    return res


def replay_graph(ctx):
    nodes, edges, inits, res = tlc.dump_dot(ctx.work, "MC_ResourceTracker", "MC_ResourceTracker_graph.cfg", workers=8)
    ctx.add_tlc(res, "ResourceTracker state graph dump (quick constants)")
    if res.violation:
        raise runner.Machinery("spec-level violation during dump: %s" % (res.violation,))
    succ = collections.defaultdict(list)
    for s, d, lab in edges:
        succ[s].append((d, lab))
    init = next(iter(inits))
    # BFS tree
    parent = {init: None}
    q = collections.deque([init])
    while q:
        s = q.popleft()
        for d, lab in succ[s]:
            if d not in parent:
                parent[d] = (s, lab)
                q.append(d)
    paths = {}

    def path(s):
        if s in paths:
            return paths[s]
        if parent[s] is None:
            p = ([], [])
        else:
            ps, lab = parent[s]
            l0, e0 = path(ps)
            p = (l0 + [label_line(lab)], e0 + [exp_of(nodes[s])])
        paths[s] = p
        return p
    import sys as _s
    _s.setrecursionlimit(10000)
    cases = []
    seen_edges = set()
    for s in parent:
        if not nodes[s]["alive"]:
            continue
        l0, e0 = path(s)
        eof_dst = [d for d, lab in succ[s] if lab == "Eof"]
        for d, lab in succ[s]:
            if (s, d, lab) in seen_edges:
                continue
            seen_edges.add((s, d, lab))
            if lab == "Eof":
                cases.append(dict(i=len(cases), lines=l0, exp=e0 + [exp_of(nodes[d])]))
            else:
                # transition + sweep from the state reached
                deof = [x for x, l2 in succ[d] if l2 == "Eof"]
                if not deof:
                    # beyond the state constraint: successors of d are not expanded; skip the sweep check
                    continue
                cases.append(dict(i=len(cases), lines=l0 + [label_line(lab)],
                                  exp=e0 + [exp_of(nodes[d]), exp_of(nodes[deof[0]])]))
    out = run_children(ctx, "replay", cases, "g")
    ctx.evaluations += len(cases)
    for c in cases:
        ctx.nontrivial.add("g:" + json.dumps(c["lines"][-1:]) + json.dumps(c["exp"][-2:]))
    for c in cases[:: max(1, len(cases) // 3)][:3]:
        ctx.sample(dict(direction="spec->code", requests=[":".join(l) for l in c["lines"]], expected_per_step=c["exp"]))
    ctx.traces_validated += len(cases) - len(out)
    ctx.extra["graph_edges_replayed"] = len(cases)
    ctx.extra["graph_edges_total"] = len(seen_edges)
    for m in out[:20]:
        ctx.violation("resource tracker: after requests %s: %s" % ([":".join(l) for l in m["lines"]], m["why"]),
                      dict(engine="E-PURE", mode="replay", lines=m["lines"], why=m["why"],
                           how="engine/pure/tracker_child.py replay"), signature=dict(kind="tracker_replay"))


def replay_sim(ctx, num, depth):
    behs, res = tlc.simulate(ctx.work, "MC_ResourceTracker", "MC_ResourceTracker_sim.cfg", num=num, depth=depth,
                             seed=ctx.seed + 1, timeout=1500)
    cases = []
    for b in behs:
        lines, exp = [], []
        for act, st in b[1:]:
            ln = list(st["last"])
            if ln == ["EOF"]:
                exp.append(exp_of(st))
                break
            lines.append(ln)
            exp.append(exp_of(st))
        # behaviours that did not reach EOF within the depth are replayed without a sweep expectation
        cases.append(dict(i=len(cases), lines=lines, exp=exp, fail=bool(b[0][1]["fail"]), strict=bool(b[0][1]["strict"])))
    if not cases:
        raise runner.Machinery("no simulated behaviour reached EOF")
    ctx.extra["simulated_behaviours_with_failing_destruction"] = sum(1 for c in cases if c["fail"])
    ctx.extra["simulated_behaviours_with_failing_destruction_and_warnings_as_errors"] = sum(1 for c in cases if c["fail"] and c["strict"])
    out = run_children(ctx, "replay", cases, "s")
    ctx.evaluations += len(cases)
    for c in cases:
        ctx.nontrivial.add("s:" + json.dumps(c["lines"]))
    ctx.traces_validated += len(cases) - len(out)
    ctx.extra["simulated_behaviours_replayed"] = len(cases)
    ctx.sample(dict(direction="spec->code (simulate)", requests=[":".join(l) for l in cases[0]["lines"]]))
    for m in out[:20]:
        ctx.violation("resource tracker: after requests %s%s: %s" % ([":".join(l) for l in m["lines"]],
                      (" (every destruction attempt fails in this run%s)" % (", warnings are errors" if cases[m["i"]].get("strict") else "")) if cases[m["i"]].get("fail") else "", m["why"]),
                      dict(engine="E-PURE", mode="replay", lines=m["lines"], why=m["why"], fail=cases[m["i"]].get("fail"), strict=cases[m["i"]].get("strict")),
                      signature=dict(kind="tracker_replay"))


def random_streams(ctx, n):
    rng = random.Random(ctx.seed * 7919 + 11)
    names = ["a", "b:c", "file", "x:y:semlock", "", "/tmp/joblib_memmapping_folder_1:2", "REGISTER"]
    types = ["folder", "file", "semlock"]
    cmds = ["REGISTER", "UNREGISTER", "MAYBE_UNLINK"]
    odd = [b"PROBE:0:noop\n", b"REGISTER:a:bogus\n", b"FROB:a:file\n", b"\xff\xfe:a:file\n", b"REGISTER:a\n",
           b"GARBAGE\n", b"\n", b"::\n", b":\n", b"REGISTER::file\n", b"  MAYBE_UNLINK:a:file  \n", b"REGISTER:a:file:\n",
           b"register:a:file\n", b"REGISTER:a:File\n", b"\x00\n", b"REGISTER:\xc3\xa9:file\n", b"PROBE\n", b"UNREGISTER:a:noop\n"]
    cases = []
    for i in range(n):
        k = rng.randint(0, 14)
        use_names = rng.sample(names, rng.randint(1, 3))
        raw = []
        for _ in range(k):
            if rng.random() < 0.78:
                raw.append(("%s:%s:%s\n" % (rng.choice(cmds), rng.choice(use_names), rng.choice(types))).encode())
            else:
                raw.append(rng.choice(odd))
        cases.append(dict(i=i, raw=[r.hex() for r in raw]))
    out = run_children(ctx, "record", cases, "r")
    by = {o["i"]: o for o in out}
    traces = []
    for c in cases:
        o = by[c["i"]]
        raw = [bytes.fromhex(h) for h in c["raw"]]
        if o["crashed"] or o["nread"] != len(raw):
            ctx.violation("resource tracker stopped consuming: %s (read %d of %d lines) on stream %r" % (
                o["crashed"], o["nread"], len(raw), raw),
                dict(engine="E-PURE", mode="record", raw=c["raw"]), signature=dict(kind="tracker_stopped"))
            continue
        tr = []
        for j, b in enumerate(raw):
            try:
                fields = [enc(f) for f in b.strip().decode("ascii").split(":")]
            except UnicodeDecodeError:
                fields = ["BADBYTES"]
            per = o["per"][j]
            tr.append(dict(eof=False, line=fields, c1=[[t, [enc(f) for f in nm.split(":")]] for t, nm in per["c"]], c2=[],
                           rep=per["rep"]))
        per = o["per"][len(raw)]
        # phase split at EOF: non-folders must precede folders
        order = o["order_eof"]
        if "folder" in order and any(k != "folder" for k in order[order.index("folder"):]):
            ctx.violation("end-of-life sweep destroyed a folder before another kind (order %s) on stream %r" % (order, raw),
                          dict(engine="E-PURE", mode="record", raw=c["raw"]), signature=dict(kind="tracker_sweep_order"))
            continue
        tr.append(dict(eof=True, line=["PROBE", "0", "noop"],
                       c1=[[t, [enc(f) for f in nm.split(":")]] for t, nm in per["c"] if t != "folder"],
                       c2=[[t, [enc(f) for f in nm.split(":")]] for t, nm in per["c"] if t == "folder"], rep=per["rep"]))
        traces.append((c, tr))
    # name "" is the empty field tuple; "a" is ["a"]: Name(ln) of REGISTER::file is <<"">> (one empty field) -> ":".join == ""
    # so map names through the same join/split convention as the spec: a cleaned name n corresponds to fields n.split(":")
    for c, tr in traces:
        for ev in tr:
            for cl in (ev["c1"], ev["c2"]):
                for item in cl:
                    pass
    tf = os.path.join(ctx.work, "traces.json")
    json.dump([tr for _, tr in traces], open(tf, "w"))
    lits = sorted({tuple(ev["line"]) for _, tr in traces for ev in tr})
    with open(os.path.join(ctx.work, "TraceRTData.tla"), "w") as fh:
        fh.write("---- MODULE TraceRTData ----\nTraceLinesLit == {\n%s }\n====\n" % ",\n".join(
            "  <<%s>>" % ", ".join(json.dumps(f) for f in ln) for ln in lits))
    res = tlc.check(ctx.work, "Trace_ResourceTracker", "Trace_ResourceTracker.cfg", workers=16, timeout=1800,
                    coverage=False, env={"TRACE_FILE": tf})
    ctx.add_tlc(res, "trace validation of %d recorded streams" % len(traces))
    ctx.evaluations += len(traces)
    for c, tr in traces:
        ctx.nontrivial.add("r:" + "".join(c["raw"]))
    if res.violation:
        if res.violation[0] != "invariant":
            raise runner.Machinery("trace validation failed oddly: %s\n%s" % (res.violation, res.out[-1500:]))
        last = res.trace[-1][1]
        tid, l = last["tid"], last["l"]
        c, tr = traces[tid - 1]
        raw = [bytes.fromhex(h) for h in c["raw"]]
        ctx.violation("resource tracker run is not a behaviour of the specification: stream %r, event %d (%s): %s; observed %s" % (
            raw, l - 1, "EOF sweep" if l - 1 > len(raw) else raw[l - 2], last.get("why"), tr[l - 2]),
            dict(engine="E-PURE", mode="record", raw=c["raw"], event=l - 1, why=last.get("why")),
            signature=dict(kind="tracker_trace"))
    else:
        want = sum(len(tr) + 1 for _, tr in traces)
        if res.distinct != want:
            raise runner.Machinery("trace validation consumed %d states, expected %d" % (res.distinct, want))
        ctx.traces_validated += len(traces)
    if traces:
        ctx.sample(dict(direction="code->spec", stream=[bytes.fromhex(h).decode("latin1") for h in traces[0][0]["raw"]],
                        observed=traces[0][1]))


def inductive(ctx):
    """unbounded counts: `registry = balance` is an inductive invariant of ResourceTracker!Next (Apalache, symbolic):
    initiation from Init, consecution from any state satisfying it, and a sanity query that must be refuted"""
    import shutil
    d = os.path.join(ctx.work, "apalache")
    os.makedirs(d, exist_ok=True)
    shutil.copy(os.path.join(tlc.SPECS, "ResourceTracker.tla"), d)
    shutil.copy(os.path.join(tlc.SPECS, "apalache", "Apa_ResourceTracker.tla"), d)
    res = {}
    for name, init, inv, length, want in [("initiation", "Init", "IndInv", 0, "NoError"), ("consecution", "IndInit", "IndInv", 1, "NoError"),
                                          ("sanity", "IndInit", "SmallCounts", 1, "Error")]:
        got, tail = tlc.apalache(d, "Apa_ResourceTracker", init, inv, length, timeout=1500)
        res[name] = got
        if got == "Unknown":
            ctx.notes.append("Apalache %s did not conclude (%s)" % (name, tail[-200:].replace("\n", " ")))
        elif got != want:
            raise runner.Machinery("Apalache %s of registry = balance: outcome %s, expected %s\n%s" % (name, got, want, tail))
    ctx.extra["apalache_inductive_invariant"] = res
    if res.get("initiation") == "NoError" and res.get("consecution") == "NoError":
        ctx.assumptions.append("registry = balance holds for unbounded counts (inductive invariant discharged by Apalache 0.58 on the request "
                               "alphabet of specs/apalache/Apa_ResourceTracker.tla)")


def run(ctx):
    tlc.stage(ctx.work)
    tlc.sany(ctx.work, "MC_ResourceTracker")
    res = tlc.check(ctx.work, "MC_ResourceTracker", "MC_ResourceTracker_quick.cfg", workers=16, timeout=1800)
    ctx.require_spec_ok(res, "ResourceTracker properties, exhaustive (quick constants)")
    replay_graph(ctx)
    if ctx.tier == "thorough":
        inductive(ctx)
        replay_sim(ctx, num=3000, depth=40)
        random_streams(ctx, 6000)
    else:
        replay_sim(ctx, num=300, depth=30)
        random_streams(ctx, 800)
    ctx.exhaustive = False
    ctx.rule = ("spec->code: one replay per transition of the exhaustive state graph (BFS path + transition + EOF sweep) "
                "and per simulated behaviour; code->spec: seeded random byte streams validated by TLC against "
                "Trace_ResourceTracker; distinct = distinct (last request, outputs) / distinct streams; non-trivial = all "
                "(every case ends with a sweep or contains refcount changes)")
    ctx.assumptions += ["main(fd) is run in-process with _CLEANUP_FUNCS replaced by recorders (no real unlink), signal.signal "
                        "and stdin/stdout closing neutralised", "POSIX cleanup table (folder, file, semlock)",
                        "counts explored up to MaxCount=2 exhaustively (3 in simulation), unbounded in random streams"]


if __name__ == "__main__":
    sys.exit(runner.main("C11", run))
