"""C06 - executor protocol property, decided on E-SIM executions of the real code by the TLA+ monitor Mon_Exec[C06]."""
import os, sys
sys.path.insert(0, os.path.dirname(os.path.dirname(os.path.abspath(__file__))))
from vlib import runner
from checks import exec_common, exec_findings


def run(ctx):
    exec_common.run_property(ctx, "C06", ['kill'], 200, 2000, classify=exec_findings.classify)
    from checks import c06_real
    c06_real.run(ctx)


if __name__ == "__main__":
    sys.exit(runner.main("C06", run))
