"""C14 part (b): SemLock.tla behaviours replayed on the real primitives across threads and a loky child process."""
import os, json
from vlib import runner, tlc
import concurrent.futures as cf

AGENT = os.path.join(runner.ROOT, "engine/real/semlock_agent.py")
CFG = [("Lock", 1), ("RLock", 1), ("Sem", 1), ("Sem", 2), ("BSem", 1), ("BSem", 2)]


def run(ctx):
    tlc.sany(ctx.work, "MC_SemLock")
    cases = []
    nsim = 600 if ctx.tier == "thorough" else 120
    for kind, n in CFG:
        cfg = "MC_SemLock_%s%d.cfg" % (kind, n)
        res = tlc.check(ctx.work, "MC_SemLock", cfg, workers=8, timeout=900)
        ctx.require_spec_ok(res, "SemLock.tla %s(%d)" % (kind, n))
        behs, _ = tlc.simulate(ctx.work, "MC_SemLock", cfg, num=nsim, depth=9, seed=ctx.seed + 5, timeout=900,
                               tag="sl%s%d" % (kind, n))
        for b in behs:
            steps = [[str(st["last"][0]), str(st["last"][1]), str(st["last"][2]), str(st["out"])] for _, st in b[1:]]
            if steps:
                cases.append(dict(i=len(cases), kind=kind, n=n, steps=steps))
    # dedupe
    seen, uniq = set(), []
    for c in cases:
        k = json.dumps([c["kind"], c["n"], c["steps"]])
        if k not in seen:
            seen.add(k)
            c["i"] = len(uniq)
            uniq.append(c)
    cases = uniq
    nsh = 8
    files = []
    for k in range(nsh):
        f = os.path.join(ctx.work, "sl_in_%d.jsonl" % k)
        with open(f, "w") as fh:
            for c in cases[k::nsh]:
                fh.write(json.dumps(c) + "\n")
        files.append(f)

    def one(k):
        of = os.path.join(ctx.work, "sl_out_%d.json" % k)
        rc, out = runner.run_child([runner.PY, AGENT, files[k], of], timeout=400,
                                   out_path=os.path.join(ctx.work, "sl_log_%d.txt" % k))
        if rc != 0 or not os.path.exists(of):
            raise runner.Machinery("semlock_agent failed rc=%s: %s" % (rc, out[-1500:]))
        return json.load(open(of))
    with cf.ThreadPoolExecutor(nsh) as ex:
        outs = list(ex.map(one, range(nsh)))
    if sum(o["n"] for o in outs) != len(cases):
        raise runner.Machinery("semlock agents processed %d of %d" % (sum(o["n"] for o in outs), len(cases)))
    bad = [m for o in outs for m in o["out"]]
    for c in cases:
        ctx.case(key="sl:" + json.dumps([c["kind"], c["n"], c["steps"]]),
                 nontrivial=len({(s[0], s[1]) for s in c["steps"]}) > 1)
    ctx.traces_validated += len(cases) - len(bad)
    ctx.extra["semlock_behaviours_replayed"] = len(cases)
    ctx.sample(dict(direction="spec->real primitives", kind=cases[0]["kind"], n=cases[0]["n"],
                    steps_proc_thread_op_expected=cases[0]["steps"]))
    for m in bad[:10]:
        c = cases[m["i"]]
        ctx.violation("C14 real primitives: %s (history: %s)" % (m["why"], c["steps"][:m["step"]]),
                      dict(engine="E-REAL/semlock", case=c, why=m["why"], how="engine/real/semlock_agent.py"),
                      signature=dict(kind="semlock_replay"))
    ctx.assumptions += ["real primitives are exercised with non-blocking acquire only (deterministic replay); P1 is a LokyProcess "
                        "holding copies made by loky's dumps under a spawning context (the path used when spawning workers)"]
