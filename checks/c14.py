"""C14 - synchronisation primitives keep their contracts under every interleaving.

(a) Condition.tla (one action per semaphore operation) checked exhaustively by TLC; every transition of the smallest
    configuration and simulated behaviours of the larger ones are replayed, operation by operation, into the real
    Condition methods running on instrumented semaphores (engine/sim/cond_sim.py); seeded random/priority schedules of
    the real code are explored as well; every execution ends with an epilogue that re-uses the object; the observation
    traces are judged by the TLA+ monitor Mon_C14.tla (TLC, batched).
(b) SemLock.tla (Lock / RLock / Semaphore / BoundedSemaphore across processes and threads) replayed on the real
    loky.backend.synchronize objects, shared with loky child processes through pickling.
(c) EventAbs.tla: call-level histories of Event replayed on the real Event code (instrumented semaphores, all
    interleavings by seeded schedules), judged by Mon_C14E.tla.
"""
import os, sys, json, collections, random
sys.path.insert(0, os.path.dirname(os.path.dirname(os.path.abspath(__file__))))
from vlib import runner, tlc, tlaparse
import concurrent.futures as cf

SIM = os.path.join(runner.ROOT, "engine/sim/cond_sim.py")

CFGS = {
    "a": dict(waiters=["a", "b"], timed=["a"], notifiers={"N": "notify"}, reps=1),
    "b": dict(waiters=["a", "b"], timed=["a", "b"], notifiers={"N": "notify_all"}, reps=2),
    "c": dict(waiters=["a", "b", "c"], timed=["a", "b"], notifiers={"N": "notify", "M": "notify_all"}, reps=1),
    "d": dict(waiters=["a", "b", "c"], timed=["a", "b"], notifiers={"N": "notify_all"}, reps=2),
}
EVKEYS = dict(ev="", t="", timed=False, res=False, holds=False, kind="", type="", blocked=[])


def norm_trace(tr):
    out = []
    for e in tr:
        d = dict(EVKEYS)
        for k in EVKEYS:
            if k in e:
                d[k] = e[k]
        out.append(d)
    return out


def proj_state(st):
    return dict(lock=str(st["lock"]), sleeping=st["sleeping"], woken=st["woken"], waitsem=st["waitsem"])


def run_sim(ctx, mode, cases, tag):
    nsh = min(16, max(1, len(cases) // 20))
    files = []
    for k in range(nsh):
        f = os.path.join(ctx.work, "%s_in_%d.jsonl" % (tag, k))
        with open(f, "w") as fh:
            for c in cases[k::nsh]:
                fh.write(json.dumps(c) + "\n")
        files.append(f)

    def one(k):
        of = os.path.join(ctx.work, "%s_out_%d.json" % (tag, k))
        # configuration dimension: every other shard runs the interpreter with -O (assert statements are stripped): the
        # contracts may not depend on side effects placed inside assert statements
        flags = ["-O"] if k % 2 == 1 else []
        rc, out = runner.run_child([runner.PY] + flags + [SIM, mode, files[k], of], timeout=1800,
                                   out_path=os.path.join(ctx.work, "%s_log_%d.txt" % (tag, k)))
        if rc != 0 or not os.path.exists(of):
            raise runner.Machinery("cond_sim failed rc=%s: %s" % (rc, out[-1500:]))
        return json.load(open(of))
    with cf.ThreadPoolExecutor(nsh) as ex:
        outs = list(ex.map(one, range(nsh)))
    res = {}
    for o in outs:
        for r in o:
            res[r["i"]] = r
    if len(res) != len(cases):
        raise runner.Machinery("cond_sim processed %d of %d cases" % (len(res), len(cases)))
    return [res[c["i"]] for c in cases]


def event_spec(ctx, evcases, evouts):
    """Event.tla: exhaustive TLC on small thread programs (design level, with the unlocked-clear switch as vacuity guard), and
    code -> spec validation of recorded executions of the real Event methods (Trace_Event.tla)."""
    import shutil, re
    tlc.sany(ctx.work, "MC_Event")
    for k in ("a", "b", "c", "d"):
        res = tlc.check(ctx.work, "MC_Event", "MC_Event_%s.cfg" % k, workers=4, timeout=900, coverage=False)
        ctx.add_tlc(res, "Event.tla program %s (ClearLocked=TRUE)" % k)
        if res.violation:
            raise runner.Machinery("Event.tla program %s: %s" % (k, res.violation))
    res = tlc.check(ctx.work, "MC_Event", "MC_Event_d_unlocked.cfg", workers=4, timeout=900, coverage=False)
    if not res.violation:
        raise runner.Machinery("Event.tla with ClearLocked=FALSE should violate PeekTruth (vacuity guard)")
    ctx.extra["event_unlocked_clear_violates"] = str(res.violation)
    n = 96 if ctx.tier == "thorough" else 32
    todo = [(c, o) for c, o in zip(evcases, evouts) if o.get("ops")][:n]
    base = os.path.join(ctx.work, "trace_event")

    def one(k):
        c, o = todo[k]
        d = os.path.join(base, "t%d" % k)
        os.makedirs(d, exist_ok=True)
        for f in ("Event.tla", "Trace_Event.tla"):
            shutil.copy(os.path.join(tlc.SPECS, f), d)
        threads = dict(c["cfg"]["threads"])
        threads["E1"] = o["epilogue"]
        evs = [(t, a, oc) for t, a, oc in o["ops"] if a.split(".")[0] in ("lock", "flag", "ret")]
        recs = ",\n  ".join('[t |-> "%s", a |-> "%s", o |-> "%s"]' % e for e in evs)
        prog = " [] ".join('t = "%s" -> <<%s>>' % (t, ", ".join('"%s"' % (("waitT" if tm is not None else "wait") if m == "wait" else m) for m, tm in calls))
                           for t, calls in threads.items())
        with open(os.path.join(d, "TraceEVData.tla"), "w") as fh:
            fh.write("---- MODULE TraceEVData ----\nEXTENDS Sequences\nTrace == <<\n  %s\n>>\nTraceThreads == {%s}\nTraceProg == [t \\in TraceThreads |-> CASE %s]\n====\n"
                     % (recs, ", ".join('"%s"' % t for t in threads), prog))
        with open(os.path.join(d, "trace.cfg"), "w") as fh:
            fh.write("SPECIFICATION TraceSpec\nCONSTANTS\n  Threads <- TraceThreads\n  Prog <- TraceProg\n  ClearLocked = TRUE\n"
                     "CONSTRAINT Track\nINVARIANT NotAccepted\nINVARIANT Coherent\nINVARIANT FlagBinary\nPOSTCONDITION Report\nCHECK_DEADLOCK FALSE\n")
        r = tlc.check(d, "Trace_Event", "trace.cfg", workers=1, timeout=600, coverage=False, heap="2g")
        m = re.search(r'<<"MATCHED", (\d+), (\d+)>>', r.out)
        if r.violation and r.violation[1] == "NotAccepted":
            shutil.rmtree(d, ignore_errors=True)
            return dict(ok=True, n=len(evs), states=r.distinct)
        if r.violation:
            return dict(ok=False, n=len(evs), why="the recorded execution reaches a state violating %s of Event.tla" % (r.violation[1],), matched=None)
        k0 = int(m.group(1)) if m else 0
        return dict(ok=False, n=len(evs), matched=k0, next=evs[k0] if k0 < len(evs) else None, before=evs[max(0, k0 - 5):k0],
                    why="no behaviour of Event.tla matches the recorded operations beyond event %d" % k0)
    with cf.ThreadPoolExecutor(16) as ex:
        out = list(ex.map(one, range(len(todo))))
    acc = [r for r in out if r["ok"]]
    ctx.traces_validated += len(acc)
    ctx.extra["event_conformance"] = dict(executions=len(out), accepted=len(acc), events=sum(r["n"] for r in out))
    for (c, o), r in zip(todo, out):
        if not r["ok"]:
            ctx.violation("C14 Event, seeded schedule %d of the real Event code on programs %s: %s (next operation %s after %s)"
                          % (c["seed"], json.dumps(c["cfg"]["threads"]), r["why"], r.get("next"), r.get("before")),
                          dict(engine="E-SIM/cond", mode="event", cfg=c["cfg"], seed=c["seed"], why=r["why"], ops=o["ops"]),
                          signature=dict(kind="event_trace"))


def judge(ctx, items, label, monitor="Mon_C14"):
    """items: list of (descr dict, trace). Batched TLC run of the monitor; loops so that each failing trace is reported."""
    items = list(items)
    known_total = set()
    rounds = 0
    while items and rounds < 12:
        rounds += 1
        tf = os.path.join(ctx.work, "mon_%s_%d.json" % (label, rounds))
        json.dump([norm_trace(tr) for _, tr in items], open(tf, "w"))
        res = tlc.check(ctx.work, monitor, monitor + ".cfg", workers=16, timeout=1800, coverage=False,
                        env={"TRACE_FILE": tf})
        ctx.add_tlc(res, "%s on %d traces (%s)" % (monitor, len(items), label))
        for m in set(__import__("re").findall(r'<<"KNOWN", "(\w+)", (\d+)>>', res.out)):
            known_total.add((m[0], json.dumps(items[int(m[1]) - 1][0], sort_keys=True)))
        if not res.violation:
            want = sum(len(tr) + 1 for _, tr in items)
            if res.distinct != want:
                raise runner.Machinery("%s consumed %d states, expected %d" % (monitor, res.distinct, want))
            ctx.traces_validated += len(items)
            break
        if res.violation[0] != "invariant":
            raise runner.Machinery("monitor run failed: %s\n%s" % (res.violation, res.out[-1500:]))
        last = res.trace[-1][1]
        tid, l, why = last["tid"], last["l"], last["why"]
        descr, tr = items[tid - 1]
        ctx.violation("C14 %s: %s (event %d of the observation trace: %s)" % (descr.get("how"), why, l - 1, json.dumps(tr[l - 2])),
                      dict(engine="E-SIM/cond", descr=descr, why=why, event=l - 1, trace=tr,
                           how="engine/sim/cond_sim.py %s" % descr.get("mode")),
                      signature=dict(kind="monitor", why=why))
        # drop every trace with the same clause, re-judge the others
        bad = [i for i, (d, t) in enumerate(items) if i == tid - 1]
        items = [x for i, x in enumerate(items) if i not in bad]
    for kid, d in sorted(known_total):
        ctx.violation("known", None, signature=dict(kind="monitor", why="KNOWN:" + kid))
    return known_total


def graph_replays(ctx):
    nodes, edges, inits, res = tlc.dump_dot(ctx.work, "MC_Condition", "MC_Condition_a_graph.cfg", workers=4)
    ctx.add_tlc(res, "Condition config a: full state graph (history variable visible)")
    succ = collections.defaultdict(list)
    for s, d, lab in edges:
        succ[s].append(d)
    init = next(iter(inits))
    parent = {init: None}
    q = collections.deque([init])
    while q:
        s = q.popleft()
        for d in succ[s]:
            if d not in parent:
                parent[d] = s
                q.append(d)

    def path(s):
        p = []
        while parent[s] is not None:
            p.append(s)
            s = parent[s]
        return p[::-1]
    cases = []
    seen = set()
    for s in parent:
        base = path(s)
        for d in succ[s]:
            if (s, d) in seen:
                continue
            seen.add((s, d))
            seq = base + [d]
            steps = [list(nodes[x]["last"]) for x in seq]
            states = [proj_state(nodes[x]) for x in seq]
            cases.append(dict(i=len(cases), cfg=CFGS["a"], steps=[[str(a) for a in st] for st in steps], states=states))
    ctx.extra["graph_edges_replayed"] = len(cases)
    return cases


def sim_replays(ctx, name, num, depth):
    behs, res = tlc.simulate(ctx.work, "MC_Condition", "MC_Condition_%s.cfg" % name, num=num, depth=depth,
                             seed=ctx.seed + 3, timeout=1200, tag="sim" + name)
    cases = []
    for b in behs:
        steps = [[str(a) for a in st["last"]] for _, st in b[1:]]
        states = [proj_state(st) for _, st in b[1:]]
        cases.append(dict(i=0, cfg=CFGS[name], steps=steps, states=states))
    return cases


def run(ctx):
    tlc.stage(ctx.work)
    tlc.sany(ctx.work, "MC_Condition")
    names = ["a", "b", "c"] + (["d"] if ctx.tier == "thorough" else [])
    for n in names:
        res = tlc.check(ctx.work, "MC_Condition", "MC_Condition_%s.cfg" % n, workers=16, timeout=1800)
        ctx.require_spec_ok(res, "Condition.tla config %s" % n)
    # known finding D5: the expected counterexample, replayed into the real code
    res = tlc.check(ctx.work, "MC_Condition", "MC_Condition_a_d5.cfg", workers=4, timeout=600, coverage=False)
    ctx.add_tlc(res, "Condition.tla config a with NotifyWakesOneIfPossible (expected to fail: D5)")
    d5_case = None
    if res.violation and res.violation[1] == "NotifyWakesOneIfPossible":
        steps = [[str(a) for a in st["last"]] for _, st in res.trace[1:]]
        states = [proj_state(st) for _, st in res.trace[1:]]
        d5_case = dict(i=0, cfg=CFGS["a"], steps=steps, states=states, d5=True)
    else:
        ctx.notes.append("D5 no longer reproduces in the specification")

    cases = graph_replays(ctx)
    nsim = 1500 if ctx.tier == "thorough" else 250
    for n in names[1:]:
        cases += sim_replays(ctx, n, nsim, 120)
    if d5_case:
        cases.append(d5_case)
    for i, c in enumerate(cases):
        c["i"] = i
    outs = run_sim(ctx, "replay", cases, "rp")
    items = []
    drift = 0
    for c, o in zip(cases, outs):
        ctx.case(key="rp:" + json.dumps(c["steps"]))
        if o["drift"]:
            drift += 1
            if drift <= 5:
                print("DRIFT property=C14 (code diverges from Condition.tla; not a verdict) %s" % o["drift"])
                ctx.notes.append("drift: " + o["drift"])
        items.append((dict(mode="replay", how="replay of a TLC behaviour of Condition.tla (%d steps%s)" % (
            len(c["steps"]), ", diverged: " + o["drift"] if o["drift"] else ""), cfg=c["cfg"], steps=c["steps"]), o["trace"]))
    ctx.extra["replays"] = len(cases)
    ctx.extra["replays_matched_every_step"] = len(cases) - drift
    ctx.extra["drift"] = drift
    ctx.sample(dict(direction="spec->code", cfg=cases[len(cases) // 2]["cfg"], steps=cases[len(cases) // 2]["steps"][:40]))

    # seeded schedules of the real code
    nexp = 6000 if ctx.tier == "thorough" else 1200
    ecases = []
    rng = random.Random(ctx.seed)
    for i in range(nexp):
        name = ["a", "b", "c", "d"][i % 4]
        ecases.append(dict(i=i, cfg=CFGS[name], seed=rng.randrange(1 << 30)))
    eouts = run_sim(ctx, "explore", ecases, "ex")
    for c, o in zip(ecases, eouts):
        ctx.case(key="ex:" + json.dumps(o["sched"]), nontrivial=any(x[1] == "timeout" for x in o["sched"]))
        items.append((dict(mode="explore", how="seeded schedule %d of the real code" % c["seed"], cfg=c["cfg"], seed=c["seed"],
                           sched=o["sched"]), o["trace"]))
    ctx.sample(dict(direction="code->monitor", cfg=ecases[0]["cfg"], schedule=eouts[0]["sched"][:40], observed=eouts[0]["trace"][:12]))
    known = judge(ctx, items, "cond")
    if d5_case and not any(k == "D5" for k, _ in known):
        ctx.notes.append("D5 counterexample of the specification is no longer reproduced by the code")
    ctx.rule = ("replay: one case per transition of the config-a state graph (path from Init + transition) and per simulated "
                "behaviour of configs b,c(,d); explore: seeded uniform/priority schedules with adversarial timeouts; distinct = "
                "distinct operation sequences; non-trivial = contains at least one timeout (explore) / all (replay)")
    ctx.assumptions += ["the four semaphores of a Condition are replaced by instrumented counting semaphores through "
                        "Condition.__setstate__ (exactly its pickled state); the real sem_* primitives are covered by part (b)",
                        "timeouts are scheduler decisions (may fire at any moment the waiter is blocked)",
                        "every execution ends with an epilogue: notify_all, wait(timeout) with no notifier, notify with no waiter"]
    # (c) Event: seeded schedules of the real Event methods, judged by Mon_C14E
    ECFG = [
        {"threads": {"S": [["set", None]], "W1": [["wait", None]], "W2": [["wait", None]], "W3": [["wait", None]]}},
        {"threads": {"S": [["set", None]], "W1": [["wait", None]], "W2": [["wait", 5.0]]}},
        {"threads": {"S": [["set", None], ["clear", None]], "W1": [["wait", 5.0], ["wait", 5.0]], "I": [["is_set", None], ["is_set", None]]}},
        {"threads": {"S": [["set", None]], "C": [["clear", None]], "W1": [["wait", None]], "W2": [["wait", 5.0]], "I": [["is_set", None]]}},
        {"threads": {"S": [["set", None], ["clear", None], ["set", None]], "W1": [["wait", 5.0]], "W2": [["wait", 5.0]], "W3": [["wait", None]]}},
    ]
    nev = 4000 if ctx.tier == "thorough" else 800
    evcases = [dict(i=i, cfg=ECFG[i % len(ECFG)], seed=rng.randrange(1 << 30)) for i in range(nev)]
    evouts = run_sim(ctx, "event", evcases, "ev")
    eitems = []
    for c, o in zip(evcases, evouts):
        ctx.case(key="ev:" + json.dumps(o["sched"]), nontrivial=len(o["sched"]) > 10)
        eitems.append((dict(mode="event", how="seeded schedule %d of the real Event code" % c["seed"], cfg=c["cfg"], seed=c["seed"],
                            sched=o["sched"]), o["trace"]))
    judge(ctx, eitems, "event", monitor="Mon_C14E")
    event_spec(ctx, evcases, evouts)
    ctx.sample(dict(direction="code->monitor (Event)", cfg=evcases[1]["cfg"], observed=evouts[1]["trace"][:14]))
    from checks import c14_real
    c14_real.run(ctx)


if __name__ == "__main__":
    sys.exit(runner.main("C14", run))
