"""C17 - cpu_count is the minimum of all applicable limits and at least 1.

Spec: specs/CpuCount.tla (code transcription vs. property formula, checked equal by TLC on every state of the
configuration x call-history space).  Conformance: every complete history TLC enumerates is emitted as a test
vector and replayed into the real loky.backend.context.cpu_count (E-PURE, all inputs substituted)."""
import os, sys, json, re
sys.path.insert(0, os.path.dirname(os.path.dirname(os.path.abspath(__file__))))
from vlib import runner, tlc


def run(ctx):
    tier = ctx.tier
    cfg = "MC_CpuCount_%s.cfg" % ("thorough" if tier == "thorough" else "quick")
    tlc.stage(ctx.work)
    tlc.sany(ctx.work, "MC_CpuCount")
    res = tlc.check(ctx.work, "MC_CpuCount", cfg, workers=16, timeout=3000, coverage=True)
    ctx.require_spec_ok(res, "CpuCount exhaustive (%s)" % cfg)
    vecs = []
    for line in res.out.splitlines():
        if line.startswith('"[\\"VEC\\"'):
            vecs.append(json.loads(json.loads(line)))
    if not vecs:
        raise runner.Machinery("TLC emitted no test vector")
    # every complete history = one vector; the number must equal the number of deepest states
    nshards = 16
    shards = [[] for _ in range(nshards)]
    for i, v in enumerate(vecs):
        shards[i % nshards].append(v)
    import concurrent.futures as cf

    def one(k):
        vf = os.path.join(ctx.work, "vec_%d.jsonl" % k)
        of = os.path.join(ctx.work, "out_%d.json" % k)
        with open(vf, "w") as fh:
            for v in shards[k]:
                fh.write(json.dumps(v) + "\n")
        rc, out = runner.run_child([runner.PY, os.path.join(runner.ROOT, "engine/pure/cpu_child.py"), vf, of],
                                   timeout=1800, out_path=os.path.join(ctx.work, "child_%d.log" % k))
        if rc != 0 or not os.path.exists(of):
            raise runner.Machinery("cpu_child failed rc=%s: %s" % (rc, out[-1500:]))
        return json.load(open(of))
    with cf.ThreadPoolExecutor(nshards) as ex:
        outs = list(ex.map(one, range(nshards)))
    total = sum(o["n"] for o in outs)
    if total != len(vecs):
        raise runner.Machinery("replayed %d of %d vectors" % (total, len(vecs)))
    ctx.evaluations = total
    ctx.traces_validated = total - sum(o["n_mismatch"] for o in outs)
    kinds = set()
    for v in vecs:
        kinds.add((v[1], v[2], v[3], v[4], v[5], v[6], v[7], v[8], v[9]))
    ctx.nontrivial = set(range(len(kinds)))    # distinct configurations (each replayed under every call history)
    ctx.rule = ("every complete call history (length MaxCalls) over every configuration enumerated by TLC from "
                "CpuCount.tla is replayed into the real cpu_count with os.cpu_count, sched_getaffinity/psutil, the "
                "cgroup files, LOKY_MAX_CPU_COUNT and the physical-core probe substituted; distinct = distinct "
                "configurations; all are non-trivial (each mixes >= 2 limits)")
    ctx.exhaustive = True
    for v in vecs[:: max(1, len(vecs) // 5)][:5]:
        ctx.sample(dict(os=v[1], affinity=[v[2], v[3]], cgroup=[v[4], v[5], v[6]], env=[v[7], v[8]], probe=v[9],
                        calls_phys_ret_warn=v[10]))
    ctx.assumptions += ["Linux branch of _count_physical_cores (sys.platform == 'linux'); Windows cap not executed",
                        "quota/period pairs and values are those listed in specs/MC_CpuCount.tla; period > 0",
                        "inputs are substituted at module level in loky.backend.context (os facade, open, psutil in sys.modules, "
                        "_count_physical_cores_linux); the property formula is CpuCount!E_*"]
    for o in outs:
        for m in o["mismatches"]:
            ctx.violation("cpu_count disagrees with the property on %s: %s" % (json.dumps(m["vector"][1:10]), m["why"]),
                          dict(engine="E-PURE", vector=m["vector"], got=m["got"], why=m["why"],
                               how="engine/pure/cpu_child.py on a file holding this vector"),
                          signature=dict(kind="cpu_count_mismatch"))


if __name__ == "__main__":
    sys.exit(runner.main("C17", run))
