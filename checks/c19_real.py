"""C19 real part: recursion of real executors up to LOKY_MAX_DEPTH + 1 (start method loky)."""
import os, json
from vlib import runner
import concurrent.futures as cf


def run(ctx):
    limits = [1, 2] if ctx.tier != "thorough" else [1, 2, 3, 4]

    def one(mx):
        of = os.path.join(ctx.work, "nest_%d.json" % mx)
        rc, out = runner.run_child([runner.PY, "-m", "engine.real.nesting_real", of], cwd=runner.ROOT, timeout=300,
                                   env={"LOKY_MAX_DEPTH": str(mx)}, out_path=os.path.join(ctx.work, "nest_%d.log" % mx))
        if not os.path.exists(of):
            return mx, None, out[-800:]
        return mx, json.load(open(of)), ""
    with cf.ThreadPoolExecutor(len(limits)) as ex:
        res = list(ex.map(one, limits))
    for mx, r, log in res:
        ctx.case(key="real-nest-%d" % mx)
        if r is None:
            raise runner.Machinery("real nesting run for LOKY_MAX_DEPTH=%d produced no result: %s" % (mx, log))
        why = None
        for lvl, (level, depth, pid, outcome) in enumerate(r):
            if depth != level:
                why = "the process at nesting level %d sees depth %d" % (level, depth)
            want = "ok" if level < mx else "refused"
            if outcome != want:
                why = "creating an executor at depth %d with LOKY_MAX_DEPTH=%d was %s, the property requires %s" % (level, mx, outcome, want)
            if why:
                break
        if why is None and len(r) != mx + 1:
            why = "recursion stopped at level %d, expected a refusal at level %d" % (len(r) - 1, mx)
        if why:
            ctx.violation("C19 real nested executors, LOKY_MAX_DEPTH=%d: %s (levels: %s)" % (mx, why, r),
                          dict(engine="E-REAL", max=mx, result=r, how="LOKY_MAX_DEPTH=%d python -m engine.real.nesting_real out.json" % mx),
                          signature=dict(kind="nesting_real"))
        else:
            ctx.traces_validated += 1
    ctx.extra["real_nesting_limits"] = limits
