"""C19 - nested parallelism depth is bounded exactly at LOKY_MAX_DEPTH.
Nesting.tla explored exhaustively by TLC; every maximal path of its state graph is replayed on the real
_check_max_depth / _adjust_process_count / _process_worker prologue (engine/pure/nesting_child.py); real nested
executors are run for a few limits (engine/real/nesting_real.py)."""
import os, sys, json, collections
sys.path.insert(0, os.path.dirname(os.path.dirname(os.path.abspath(__file__))))
from vlib import runner, tlc
import concurrent.futures as cf

CHILD = os.path.join(runner.ROOT, "engine/pure/nesting_child.py")


def run(ctx):
    tlc.stage(ctx.work)
    tlc.sany(ctx.work, "MC_Nesting")
    cfg = "MC_Nesting_quick.cfg"
    if ctx.tier == "thorough":
        cfg = "MC_Nesting_thorough.cfg"
        with open(os.path.join(ctx.work, cfg), "w") as fh:
            fh.write(open(os.path.join(ctx.work, "MC_Nesting_quick.cfg")).read().replace("MaxOps = 4", "MaxOps = 5"))
    res = tlc.check(ctx.work, "MC_Nesting", cfg, workers=8, timeout=1800)
    ctx.require_spec_ok(res, "Nesting.tla (%s)" % cfg)
    gcfg = cfg.replace(".cfg", "_graph.cfg")
    with open(os.path.join(ctx.work, gcfg), "w") as fh:
        fh.write("\n".join(l for l in open(os.path.join(ctx.work, cfg)).read().split("\n") if not l.startswith(("PROPERTY", "INVARIANT"))))
    nodes, edges, inits, res2 = tlc.dump_dot(ctx.work, "MC_Nesting", gcfg, workers=4, timeout=1800)
    ctx.add_tlc(res2, "Nesting.tla state graph")
    succ = collections.defaultdict(list)
    for s, d, lab in edges:
        succ[s].append(d)
    parent = {}
    q = collections.deque()
    for i in inits:
        parent[i] = None
        q.append(i)
    while q:
        s = q.popleft()
        for d in succ[s]:
            if d not in parent:
                parent[d] = s
                q.append(d)

    def path(s):
        p = []
        while parent[s] is not None:
            p.append(s)
            s = parent[s]
        return s, p[::-1]
    leaves = [s for s in parent if not succ[s]]
    covered = set()
    seqs = []
    for s in leaves:
        root, p = path(s)
        seqs.append((root, p))
        prev = root
        for x in p:
            covered.add((prev, x))
            prev = x
    for s in parent:
        for d in succ[s]:
            if (s, d) not in covered:
                root, p = path(s)
                seqs.append((root, p + [d]))
                covered.add((s, d))
    cases = []
    for root, p in seqs:
        if not p:
            continue
        steps = []
        for n in p:
            l = nodes[n]["last"]
            steps.append([str(x) if not isinstance(x, int) or isinstance(x, bool) else x for x in l])
        exp = [dict(out=str(nodes[n]["out"]), depths=[r["depth"] for r in nodes[n]["procs"]]) for n in p]
        cases.append(dict(i=len(cases), max=nodes[root]["max"], steps=steps, exp=exp))
    nsh = 16
    files = []
    for k in range(nsh):
        f = os.path.join(ctx.work, "n_in_%d.jsonl" % k)
        with open(f, "w") as fh:
            for c in cases[k::nsh]:
                fh.write(json.dumps(c) + "\n")
        files.append(f)

    def one(k):
        of = os.path.join(ctx.work, "n_out_%d.json" % k)
        rc, out = runner.run_child([runner.PY, CHILD, files[k], of], timeout=1800, out_path=os.path.join(ctx.work, "n_log_%d.txt" % k))
        if rc != 0 or not os.path.exists(of):
            raise runner.Machinery("nesting_child failed rc=%s: %s" % (rc, out[-1500:]))
        return json.load(open(of))
    with cf.ThreadPoolExecutor(nsh) as ex:
        outs = list(ex.map(one, range(nsh)))
    if sum(o["n"] for o in outs) != len(cases):
        raise runner.Machinery("nesting children processed %d of %d" % (sum(o["n"] for o in outs), len(cases)))
    bad = [m for o in outs for m in o["out"]]
    for m in bad:
        if m["why"].startswith("harness:"):
            raise runner.Machinery("nesting_child: %s on %s" % (m["why"], m["steps"]))
    for c in cases:
        ctx.case(key=json.dumps([c["max"], c["steps"]]), nontrivial=any(e["out"] != "ok" for e in c["exp"]) or len(c["steps"]) > 2)
    ctx.traces_validated += len(cases) - len(bad)
    ctx.exhaustive = True
    ctx.extra["graph_transitions"] = len(edges)
    ctx.extra["histories_replayed"] = len(cases)
    k = len(cases) // 3
    ctx.sample(dict(LOKY_MAX_DEPTH=cases[k]["max"], history=cases[k]["steps"], expected=cases[k]["exp"]))
    seen = collections.Counter()
    for m in bad:
        d10 = "initializer" in m["why"] and "the code there sees depth 0" in m["why"]
        key = "D10" if d10 else m["why"][:60]
        seen[key] += 1
        if seen[key] > 3:
            continue
        ctx.violation("C19 LOKY_MAX_DEPTH=%d history %s: %s" % (m["max"], m["steps"], m["why"]),
                      dict(engine="E-PURE", case=cases[m["i"]], why=m["why"], how="engine/pure/nesting_child.py"),
                      signature=dict(kind="nesting_replay", defect="D10" if d10 else None))
    ctx.rule = ("one replay per maximal path of the exhaustive state graph of Nesting.tla (all transitions covered): executor creations "
                "from tasks and from initializers at every depth, all start methods, LOKY_MAX_DEPTH in {-1,0,1,2,3}; non-trivial = "
                "contains a refusal or more than two operations")
    ctx.assumptions += ["workers are spawned through a recording context (no real process); the depth seen inside a worker comes from "
                        "running the real _process_worker prologue on fake queues", "LOKY_MAX_DEPTH is substituted in the module "
                        "(it is read from the environment at import)"]
    from checks import c19_real
    c19_real.run(ctx)


if __name__ == "__main__":
    sys.exit(runner.main("C19", run))
