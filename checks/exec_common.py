"""Shared machinery of the executor-protocol checks (C01-C10, C18-init, C20-sim): scenario families, sharded E-SIM
runs of the real code, normalisation of observation traces, verdicts by the TLA+ monitor Mon_Exec (TLC, batched)."""
import os, sys, json, random, re, collections
from vlib import runner, tlc
import concurrent.futures as cf

CONTAIN_KINDS = ["ok", "ok", "ok", "hugearg", "wrapped", "raise", "sysexit", "kbint", "unpicklable_arg", "too_large", "unpicklable_result", "big", "unpicklable_exc", "oserror_arg", "ebadf_arg", "epipe_arg", "partial_kw"]
WORKER_LABELS = ["cq.rlock.acq", "cq.r.poll", "cq.r.recv", "cq.sem.rel", "cq.rlock.rel", "rq.wlock.acq", "rq.w.send",
                 "rq.w.send2", "rq.wlock.rel", "mgmt.try", "mgmt.rel", "init", "start"]

DEFAULTS = dict(ev="", t=-1, u="", pid=-1, kind="", outcome="", bpp=False, twe=False, shut=False, etype="", good=False,
                cause=False, res=False, wait=False, kill=False, how="", code=0, n=0, same=False, eid=-1, oldeid=-1, maxw=0,
                nproc=0, broken=False, shutdown=False, oldbroken=False, oldshutdown=False, late=False, nbefore=0, kept=0, oldalive=0, reason="", pending=[], blockedusers=[],
                blocked=[], liveprocs=[], unreaped=[], died=[], mgmtalive=False, warn=False)


def normalise(tr, scn):
    out = [dict(DEFAULTS, ev="cfg", maxw=scn["exec"]["max_workers"], res=bool(scn["exec"].get("init_fail")),
                wait=scn["exec"].get("timeout") is not None, kill=len(scn["users"]) > 1 and not scn.get("single"))]
    for e in tr:
        d = dict(DEFAULTS)
        ev = e["ev"]
        d["ev"] = ev
        for k in ("t", "u", "pid", "kind", "outcome", "good", "res", "wait", "kill", "how", "n", "same", "maxw", "nproc",
                  "broken", "shutdown", "late", "nbefore", "kept", "oldalive", "reason"):
            if k in e and e[k] is not None:
                d[k] = e[k]
        if ev == "call_exc":
            d["kind"] = e.get("call", "")
            # the scenario turned the "resize with running jobs" warning into an error: the call legitimately raises it
            d["warn"] = bool(scn["exec"].get("strict_resize") or scn["exec"].get("strict_warnings")) and e.get("type") == "UserWarning" and "Trying to resize" in e.get("what", "")
        if "code" in e:
            d["code"] = e["code"] if isinstance(e["code"], int) and e["code"] >= 0 else 255
        if ev in ("resolve", "submit_rejected"):
            mro = e.get("mro") or []
            d["bpp"] = "BrokenProcessPool" in mro
            d["twe"] = "TerminatedWorkerError" in mro
            d["shut"] = "ShutdownExecutorError" in mro
            d["etype"] = e.get("type") or ""
            d["cause"] = e.get("cause") == "_RemoteTraceback"
        if ev == "reuse_ret":
            d["eid"] = e.get("eid", -1)
            d["oldeid"] = e["old_eid"] if e.get("old_eid") is not None else -1
            d["oldbroken"] = bool(e.get("old_broken"))
            d["oldshutdown"] = bool(e.get("old_shutdown"))
        if ev == "end":
            d["pending"] = e["pending"]
            d["blockedusers"] = e["blocked_users"]
            d["blocked"] = e["blocked"]
            d["liveprocs"] = [int(x) for x in e["live_procs"]]
            d["unreaped"] = [int(x) for x in e["unreaped"]]
            d["died"] = e["died"]
            d["mgmtalive"] = any(b in ("mgr", "feeder") for b in e["blocked"])
        if isinstance(d["pid"], str):
            d["pid"] = -1
        out.append(d)
    return out


# ------------------------------------------------------------------------------------------------------------
# scenario families
def fam_mixed(rng, crash=False, timeouts=None):
    maxw = rng.choice([1, 1, 2, 2, 3])
    tmo = rng.choice([None, 0.5]) if timeouts is None else (0.5 if timeouts else None)
    nt = rng.randint(2, 6)
    kinds = [rng.choice(CONTAIN_KINDS) for _ in range(nt)]
    if crash:
        kinds[rng.randrange(nt)] = rng.choice(["crash", "crash", "unloadable_arg", "unloadable_result"])
    users = {"u1": [], "u2": []}
    two = rng.random() < 0.4
    for i, k in enumerate(kinds):
        u = "u2" if two and rng.random() < 0.5 else "u1"
        users[u].append(["submit", i + 1, k])
        if rng.random() < 0.15:
            users[u].append(["cancel", rng.randint(1, i + 1)])
        if tmo and rng.random() < 0.3:
            users[u].append(["sleep", 1.0])
        if rng.random() < 0.2:
            users[u].append(["wait", rng.randint(1, i + 1)])
    fin = rng.choice(["shutdown_wait", "shutdown_wait", "shutdown_nowait", "del", "exit", "none", "ctx"])
    if fin == "del" and users["u2"]:
        fin = "shutdown_nowait"       # dropping the reference is only meaningful when a single user holds it
    u1 = users["u1"]
    if fin == "shutdown_wait":
        if rng.random() < 0.5:
            u1.append(["wait_all"])
        u1 += [["shutdown", True, False], ["submit", 90, "ok"]]
    elif fin == "shutdown_nowait":
        u1 += [["shutdown", False, False], ["wait_all"]]
    elif fin == "del":
        u1 += [["del"], ["wait_all"]]
    elif fin == "exit":
        u1 += [["exit"], ["wait_all"]]
    elif fin == "ctx":
        u1 += [["wait_all"], ["shutdown", True, False]]
    else:
        u1 += [["wait_all"], ["settle"], ["submit", 91, "ok"], ["wait", 91], ["shutdown", True, False]]
    if not users["u2"]:
        del users["u2"]
    return dict(exec=dict(kind="plain", max_workers=maxw, timeout=tmo), users=users, fam="mixed")


def fam_crash(rng):
    scn = fam_mixed(rng, crash=rng.random() < 0.6)
    scn["fam"] = "crash"
    u1 = scn["users"]["u1"]
    # a probe after everything settled: a later submit must be refused once a worker died abruptly
    scn["users"]["u1"] = [op for op in u1 if op[0] not in ("shutdown", "del", "exit")] + [["wait_all"], ["settle"], ["submit", 95, "probe"], ["wait", 95], ["shutdown", True, False]]
    if rng.random() < 0.35:
        # retry-on-failure: done-callbacks that submit again; when the pool breaks they run inside the manager thread
        # while it is failing the pending futures
        out, k = [], 0
        for op in scn["users"]["u1"]:
            out.append(op)
            if op[0] == "submit" and op[1] < 90 and rng.random() < 0.6:
                k += 1
                out.append(["callback_submit", op[1], 20 + k])
        scn["users"]["u1"] = out
    return scn


def fam_crash_shutdown(rng):
    """an abrupt death immediately followed (or preceded) by a shutdown: the manager can find the wake-up of the shutdown
    and the sentinel of the dead worker ready at the same time, or be past its last look at the sentinels"""
    maxw = rng.choice([2, 2, 3])
    u1 = []
    nt = rng.randint(1, 4)
    for i in range(nt):
        u1.append(["submit", i + 1, rng.choice(["ok", "ok", "ok", "big", "raise"])])
    if rng.random() < 0.7:
        u1.append(["wait_all"])
    fin = rng.choice(["shutdown_wait", "shutdown_wait", "shutdown_wait", "shutdown_nowait", "exit"])
    if fin == "shutdown_wait":
        u1 += [["shutdown", True, False]]
    elif fin == "shutdown_nowait":
        u1 += [["shutdown", False, False], ["wait_all"]]
    else:
        u1 += [["exit"], ["wait_all"]]
    return dict(exec=dict(kind="plain", max_workers=maxw, timeout=rng.choice([None, None, 0.5])), users={"u1": u1}, fam="crash_shutdown")


def fam_trace(rng):
    """scenarios whose every operation has a counterpart in LokyExecutor.tla: their E-SIM executions are validated as
    behaviours of the specification (checks/exec_trace.py)"""
    maxw = rng.choice([1, 1, 2, 2, 3])
    nt = rng.randint(1, 4)
    fin = rng.choice(["shutdown_wait", "shutdown_wait", "shutdown_nowait", "kill", "del", "exit", "none"])
    pool = ["ok", "ok", "ok", "raise", "big", "unpicklable_arg", "hugearg"] + (["long"] if fin == "kill" else []) + (["crash"] if rng.random() < 0.3 else [])
    u1 = []
    for i in range(nt):
        u1.append(["submit", i + 1, rng.choice(pool)])
        r = rng.random()
        if r < 0.2 and fin != "kill":          # (with never-ending tasks around, waiting for a task queued behind one would block for ever)
            u1.append(["wait", i + 1])
        elif r < 0.3:
            u1.append(["sleep", 1.0])
        elif r < 0.42:
            u1.append(["cancel", rng.randint(1, i + 1)])
    if fin == "shutdown_wait":
        u1 += [["shutdown", True, False]]
    elif fin == "shutdown_nowait":
        u1 += [["shutdown", False, False], ["wait_all"]]
    elif fin == "kill":
        u1 += [["shutdown", True, True]]
    elif fin == "del":
        u1 += [["del"], ["wait_all"]]
    elif fin == "exit":
        u1 += [["exit"], ["wait_all"]]
    else:
        u1 += [["wait_all"], ["settle"]]
    return dict(exec=dict(kind="plain", max_workers=maxw, timeout=rng.choice([None, None, 0.5])), users={"u1": u1}, fam="trace")


def fam_stalled_manager(rng):
    """the manager thread is unavailable for longer than the 30 s exit handshake (a slow done-callback runs in it) while idle
    workers time out: they leave on their own, cleanly, and nobody may take that for a crash"""
    maxw = rng.choice([2, 2, 3])
    u1 = [["submit", 1, "ok"], ["callback_slow", 1, 33.0]]
    for i in range(2, rng.randint(2, 4) + 1):
        u1.append(["submit", i, "ok"])
    u1 += [["wait_all"], ["settle"], ["submit", 50, "ok"], ["wait", 50], ["settle"], ["submit", 91, "ok"], ["wait", 91], ["shutdown", True, False]]
    return dict(exec=dict(kind=rng.choice(["plain", "reusable"]), max_workers=maxw, timeout=0.5), users={"u1": u1}, fam="stalled_manager")


def fam_memleak(rng):
    """workers that leave because their memory grew (psutil branch): a clean, announced exit after any task, replaced by the
    manager while work is pending -- invisible to the user like an idle-timeout exit"""
    maxw = rng.choice([1, 2, 2, 3])
    nt = rng.randint(3, 7)
    u1 = []
    for i in range(nt):
        u1.append(["submit", i + 1, rng.choice(["ok", "ok", "ok", "raise", "big"])])
        if rng.random() < 0.2:
            u1.append(["wait", rng.randint(1, i + 1)])
    fin = rng.choice(["shutdown_wait", "shutdown_wait", "none", "shutdown_nowait"])
    if fin == "shutdown_wait":
        u1 += [["shutdown", True, False]]
    elif fin == "shutdown_nowait":
        u1 += [["shutdown", False, False], ["wait_all"]]
    else:
        u1 += [["wait_all"], ["settle"], ["submit", 91, "ok"], ["wait", 91], ["shutdown", True, False]]
    return dict(exec=dict(kind=rng.choice(["plain", "plain", "reusable"]), max_workers=maxw, timeout=rng.choice([None, 0.5]),
                          leak_after=rng.choice([1, 1, 2, 3]), no_exitcode=rng.random() < 0.2), users={"u1": u1}, fam="memleak")


def fam_respawn_crash(rng):
    """a worker spawned by submit() (after idle timeouts emptied the pool, or at first use) dies at once: the window in
    which the manager's sentinel snapshot does not yet contain the new worker"""
    maxw = rng.choice([1, 1, 2])
    u1 = []
    if rng.random() < 0.7:
        u1 += [["submit", 1, "ok"], ["wait", 1], ["sleep", 1.0], ["settle"]]
    u1 += [["submit", 2, rng.choice(["crash", "crash", "ok"])]]
    if rng.random() < 0.5:
        u1 += [["submit", 3, "ok"]]
    u1 += [["wait_all"], ["settle"], ["submit", 95, "probe"], ["wait", 95], ["shutdown", True, False]]
    return dict(exec=dict(kind="plain", max_workers=maxw, timeout=0.5, initializer=rng.random() < 0.3,
                          init_fail=[]), users={"u1": u1}, fam="respawn_crash")


def fam_resize_wait(rng):
    """a shrink requested while work is in flight: idle workers time out while the call waits for the jobs"""
    n0 = rng.choice([2, 3, 4])
    n1 = rng.randint(1, n0 - 1)
    u1 = [["timeouts_off"], ["submit", 1, "long"], ["submit", 2, "ok"], ["wait", 2], ["reuse", n1, {}], ["submit", 3, "ok"], ["wait_all"], ["shutdown", True, False]]
    helper = [["wait_label", "u1", "sleep"], ["timeouts_on"], ["wait_live", 1], ["timeouts_off"], ["release", 1]]
    return dict(exec=dict(kind="reusable", max_workers=n0, timeout=0.5), users={"u1": u1, "h": helper}, fam="resize_wait", single=True)


def fam_resize_strict(rng):
    """the user turned the "Trying to resize an executor with running jobs" warning into an error (-W error / pytest
    filterwarnings): the resize requested while a job runs raises; asked again once the job is done, it must be carried out"""
    n0 = rng.choice([2, 3, 4])
    n1 = rng.choice([n for n in (1, 2, 3, 4) if n != n0])
    u1 = [["submit", 1, "long"], ["submit", 2, "ok"], ["wait", 2], ["reuse", n1, {}], ["release", 1], ["wait", 1], ["settle"],
          ["reuse", n1, {}], ["submit", 3, "ok"], ["wait_all"]]
    if rng.random() < 0.5:
        u1 += [["reuse", rng.choice([1, 2, 3]), {}], ["submit", 4, "ok"], ["wait_all"]]
    u1 += [["shutdown", True, False]]
    return dict(exec=dict(kind="reusable", max_workers=n0, timeout=None, strict_resize=True), users={"u1": u1}, fam="resize_strict")


def fam_resize_grow_crash(rng):
    """an idle reusable executor is grown, one of the workers the resize spawned dies abruptly before anything else is
    submitted, and the next call asks for fewer workers again: the death must be noticed although nothing woke the manager"""
    n0 = rng.choice([1, 1, 2])
    k = rng.choice([1, 1, 2])
    u1 = [["submit", 1, "ok"], ["wait", 1], ["settle"], ["reuse", n0 + k, {}], ["settle"], ["reuse", rng.randint(1, n0), {}],
          ["submit", 3, "ok"], ["wait_all"], ["shutdown", True, False]]
    if rng.random() < 0.8:       # one of the new workers dies as soon as it exists ...
        pol = dict(kind="prio", tp=0.0, crash_at=[dict(label="start", nth=n0 + rng.randint(1, k))])
    else:                        # ... or any worker dies at any moment
        pol = dict(tp=0.0, pcrash=0.02, max_crash=1)
    return dict(exec=dict(kind="reusable", max_workers=n0, timeout=None), users={"u1": u1}, fam="resize_grow_crash", policy=pol)


def fam_resize_crash(rng):
    """a resize requested while work is in flight on a machine with few CPUs (small call queue: some submitted tasks are
    still pending in the parent, one of them cancelled) and a worker dies abruptly at some point, possibly during the wait"""
    n0 = rng.choice([1, 2, 2])
    n1 = rng.choice([x for x in (1, 2, 3) if x != n0])
    nt = rng.randint(4, 7)
    u1 = [["submit", 1, rng.choice(["long", "long", "ok"])]] + [["submit", i, "ok"] for i in range(2, nt + 1)]
    if rng.random() < 0.7:
        u1 += [["cancel", nt]]
    u1 += [["reuse", n1, {}], ["submit", 40, "ok"], ["wait_all"], ["shutdown", True, False]]
    helper = [["wait_label", "u1", "sleep"], ["sleep", 1.0], ["release", 1]]
    return dict(exec=dict(kind="reusable", max_workers=n0, timeout=rng.choice([None, 0.5]), cpus=1), users={"u1": u1, "h": helper},
                fam="resize_crash", single=True)


def fam_reuse_kill(rng):
    """the reusable executor is stuck on never-ending tasks, is (or is not) already flagged as shut down without waiting, and
    is then replaced with kill_workers=True: the call must return a fresh working executor at once"""
    n0 = rng.choice([1, 2, 2])
    u1 = [["submit", i + 1, "long"] for i in range(rng.randint(1, n0 + 1))]
    r = rng.random()
    if r < 0.5:
        u1 += [["shutdown", False, False]]
    elif r < 0.65:
        u1 += [["shutdown", False, True]]
    kw = {"kill_workers": True}
    if r >= 0.65:
        kw["timeout"] = 7          # other arguments than the running instance: it has to be replaced (with the same arguments a
                                   # live instance is reused and legitimately waits for its never-ending tasks)
    u1 += [["reuse", rng.choice([1, 2, 3]), kw], ["submit", 40, "ok"], ["wait", 40], ["shutdown", True, False]]
    return dict(exec=dict(kind="reusable", max_workers=n0, timeout=None), users={"u1": u1}, fam="reuse_kill")


def fam_resize_shrink_big(rng):
    """a shrink that dismisses more workers than the call queue has slots (1-CPU machine: 3 slots)"""
    n0 = rng.choice([5, 6])
    n1 = rng.choice([1, 1, 2])
    u1 = [["submit", 1, "ok"], ["submit", 2, "ok"], ["wait_all"], ["settle"], ["reuse", n1, {}], ["submit", 3, "ok"], ["wait_all"]]
    if rng.random() < 0.5:
        u1 += [["reuse", n1, {}], ["submit", 4, "ok"], ["wait_all"]]
    u1 += [["shutdown", True, False]]
    return dict(exec=dict(kind="reusable", max_workers=n0, timeout=None, cpus=1), users={"u1": u1}, fam="resize_shrink_big")


def fam_resize_partial(rng):
    """some (not all) workers leave by idle timeout, then the pool is asked for exactly the number that is left, then more
    long tasks than that are submitted: no more than the requested number may run at once"""
    n0 = rng.choice([2, 3, 4])
    u1 = [["timeouts_off"]] + [["submit", i + 1, "ok"] for i in range(n0)] + [["wait_all"], ["timeouts_on"],
          ["wait_live", n0 - 1], ["timeouts_off"], ["reuse", "live", {}]]
    for i in range(n0 + 1):
        u1.append(["submit", 20 + i, "long"])
    u1 += [["settle"]] + [["release", 20 + i] for i in range(n0 + 1)] + [["wait_all"], ["shutdown", True, False]]
    return dict(exec=dict(kind="reusable", max_workers=n0, timeout=0.5), users={"u1": u1}, fam="resize_partial")


def fam_callback(rng):
    """done-callbacks that submit the next task (they run in the manager thread), on plain and reusable executors, racing
    with shutdown / resize"""
    reusable = rng.random() < 0.6
    n0 = rng.choice([1, 2, 3])
    u1 = [["submit", 1, rng.choice(["ok", "raise"])], ["callback_submit", 1, 11], ["submit", 2, "ok"], ["callback_submit", 2, 12]]
    if reusable:
        u1 += [["reuse", rng.choice([1, 2, 3, 4]), {}]]
        if rng.random() < 0.5:
            u1 += [["submit", 3, "ok"], ["callback_submit", 3, 13], ["reuse", rng.choice([1, 2]), {}]]
    u1 += [["wait", 1], ["wait", 2], ["settle"], ["wait_all"], ["shutdown", True, False]]
    return dict(exec=dict(kind="reusable" if reusable else "plain", max_workers=n0, timeout=rng.choice([None, 0.5])), users={"u1": u1}, fam="callback")


def fam_map(rng):
    maxw = rng.choice([1, 2, 3])
    tmo = rng.choice([None, 0.5])
    nit = rng.choice([1, 1, 2])
    lens = [rng.randint(0, 5) for _ in range(nit)]
    u1 = [["map", 1, lens, rng.randint(1, 7)]]
    if rng.random() < 0.5:
        u1 = [["submit", 1, "ok"], ["wait", 1]] + ([["sleep", 1.0]] if tmo else []) + u1
    if rng.random() < 0.4:
        u1.append(["map", 2, [rng.randint(1, 5)], rng.randint(1, 3)])
    u1 += [["shutdown", True, False]]
    users = {"u1": u1}
    if rng.random() < 0.3:
        users["u2"] = [["submit", 50, "ok"], ["submit", 51, "raise"], ["wait", 50], ["wait", 51]]
    return dict(exec=dict(kind="plain", max_workers=maxw, timeout=tmo), users=users, fam="map")


def fam_kill(rng):
    maxw = rng.choice([1, 2, 2])
    nt = rng.randint(2, 6)
    u1 = []
    for i in range(nt):
        u1.append(["submit", i + 1, rng.choice(["long", "long", "ok", "raise", "big", "hugearg"])])
    if u1[0][2] != "long" and rng.random() < 0.5:
        u1.append(["wait", 1])
    r = rng.random()
    if r < 0.25:
        u1 += [["shutdown", False, False]]          # a graceful shutdown is already in progress when the forced one arrives
    elif r < 0.35:
        u1 += [["shutdown", False, True]]           # forced without waiting, then waited for
    u1 += [["shutdown", True, True], ["submit", 90, "ok"]]
    return dict(exec=dict(kind="plain", max_workers=maxw, timeout=rng.choice([None, 0.5])), users={"u1": u1}, fam="kill")


def fam_timeout(rng):
    maxw = rng.choice([1, 1, 2, 3])
    u1 = []
    nt = rng.randint(2, 6)
    for i in range(nt):
        u1.append(["submit", i + 1, rng.choice(["ok", "ok", "raise", "big"])])
        r = rng.random()
        if r < 0.35:
            u1.append(["sleep", 1.0])
        elif r < 0.55:
            u1.append(["wait", i + 1])
    u1 += [["wait_all"]]
    if rng.random() < 0.5:
        u1 += [["sleep", 1.0], ["submit", 80, "ok"], ["wait", 80]]
    u1 += [["shutdown", True, False]]
    users = {"u1": u1}
    if rng.random() < 0.3:
        users["u2"] = [["submit", 50, "ok"], ["sleep", 1.0], ["submit", 51, "ok"], ["wait", 50], ["wait", 51]]
        u1.insert(len(u1) - 1, ["wait_all"])
    # strict_warnings: the program runs with -W error::UserWarning -- the executor's own warnings ("A worker stopped while some
    # jobs were given to the executor") are then exceptions in whichever thread issues them
    return dict(exec=dict(kind="plain", max_workers=maxw, timeout=0.5, no_exitcode=rng.random() < 0.2, strict_warnings=rng.random() < 0.25),
                users=users, fam="timeout")


def fam_saturation(rng):
    maxw = rng.choice([1, 2, 3])
    n = maxw + rng.randint(0, 2)
    tmo = rng.choice([None, 0.5])
    u1 = []
    if tmo and rng.random() < 0.6:
        u1 += [["submit", 70, "ok"], ["wait", 70], ["sleep", 1.0], ["settle"]]
    for i in range(n):
        u1.append(["submit", i + 1, "long"])
    u1 += [["sat_probe", min(n, maxw)]]
    for i in range(n):
        u1.append(["release", i + 1])
    u1 += [["wait_all"], ["shutdown", True, False]]
    return dict(exec=dict(kind="plain", max_workers=maxw, timeout=tmo), users={"u1": u1}, fam="saturation")


def fam_resize_saturation(rng):
    """the reusable executor is created small, resized up (the call queue is the one built at creation), then given as
    many long tasks as it has workers: all of them must run concurrently"""
    m0 = rng.choice([1, 1, 2])
    m1 = rng.choice([3, 4, 4, 5])
    tmo = rng.choice([None, None, 0.5])
    u1 = [["submit", 70, "ok"], ["wait", 70], ["reuse", m1, {}]]
    if rng.random() < 0.3:
        u1 += [["submit", 71, "ok"], ["wait", 71]]
    n = m1 + rng.randint(0, 1)
    for i in range(n):
        u1.append(["submit", i + 1, "long"])
    u1 += [["sat_probe", m1]]
    for i in range(n):
        u1.append(["release", i + 1])
    u1 += [["wait_all"], ["shutdown", True, False]]
    return dict(exec=dict(kind="reusable", max_workers=m0, timeout=tmo, cpus=rng.choice([None, None, 1, 2])), users={"u1": u1}, fam="resize_saturation")


def fam_init(rng):
    maxw = rng.choice([1, 2])
    fail = rng.random() < 0.4
    tmo = rng.choice([None, 0.5])
    u1 = [["submit", 1, "pid"], ["submit", 2, "pid"]]
    if tmo:
        u1 += [["wait_all"], ["sleep", 1.0], ["submit", 3, "pid"]]
    u1 += [["wait_all"], ["settle"], ["submit", 95, "probe"], ["wait", 95], ["shutdown", True, False]]
    return dict(exec=dict(kind="plain", max_workers=maxw, timeout=tmo, initializer=True, init_fail=["all"] if fail else []),
                users={"u1": u1}, fam="init")


def fam_reusable(rng):
    m0 = rng.choice([1, 2, 3])
    tmo = rng.choice([None, None, 0.5])
    tid = [0]

    def sub(kind="ok"):
        tid[0] += 1
        return ["submit", tid[0], kind]
    u1 = []
    cur = m0
    for _ in range(rng.randint(1, 4)):
        for _ in range(rng.randint(0, 3)):
            u1.append(sub(rng.choice(["ok", "ok", "raise", "big"])))
        r = rng.random()
        if r < 0.25:
            u1.append(["wait_all"])
        if r < 0.1:
            u1 += [sub("crash"), ["wait", tid[0]]]
        elif r < 0.2:
            u1 += [["wait_all"], ["shutdown", rng.random() < 0.7, False]]
        n = rng.choice([1, 2, 3, 4])
        kw = {}
        if rng.random() < 0.15:
            kw["reuse"] = rng.choice([True, False])
        if rng.random() < 0.1:
            kw["kill_workers"] = True
        u1.append(["reuse", n, kw])
        cur = n
    for _ in range(rng.randint(0, 2)):
        u1.append(sub("ok"))
    u1 += [["wait_all"], ["shutdown", True, False]]
    users = {"u1": u1}
    if rng.random() < 0.25:
        users["u2"] = [["reuse", rng.choice([1, 2, 3]), {}], ["submit", 60, "ok"], ["wait", 60]]
    return dict(exec=dict(kind="reusable", max_workers=m0, timeout=tmo), users=users, fam="reusable")


FAMILIES = dict(resize_grow_crash=fam_resize_grow_crash, resize_strict=fam_resize_strict, reuse_kill=fam_reuse_kill, resize_shrink_big=fam_resize_shrink_big, stalled_manager=fam_stalled_manager, memleak=fam_memleak, resize_crash=fam_resize_crash, resize_saturation=fam_resize_saturation, trace=fam_trace, crash_shutdown=fam_crash_shutdown, callback=fam_callback, resize_partial=fam_resize_partial, resize_wait=fam_resize_wait, map=fam_map, reusable=fam_reusable, respawn_crash=fam_respawn_crash, mixed=fam_mixed, crash=fam_crash, kill=fam_kill, timeout=fam_timeout, saturation=fam_saturation, init=fam_init)


def policies(rng, fam):
    kind = rng.choice(["random", "prio", "prio", "prio"])
    p = dict(kind=kind, tp=rng.choice([0.0, 0.02, 0.1, 0.3]) if fam != "kill" else rng.choice([0.0, 0.05]),
             change=rng.choice([0.02, 0.05, 0.15]))
    if rng.random() < 0.3:
        p["low"] = [rng.choice(["u", "mgr", "feeder", "W"])]
    if fam in ("resize_wait", "resize_partial"):
        p["tp"] = 0.3
    if fam == "respawn_crash":
        p["low"] = [rng.choice(["u", "u", "W", "mgr"])]
        p["kind"] = "prio"
        if rng.random() < 0.5:
            p["crash_at"] = [dict(label=rng.choice(["start", "init", "cq.rlock.acq", "cq.r.poll"]), nth=rng.randint(1, 4))]
    if fam == "trace" and rng.random() < 0.4:
        p["crash_at"] = [dict(label=rng.choice(WORKER_LABELS), nth=rng.randint(1, 4))]
    if fam == "resize_crash":
        p["pcrash"], p["max_crash"] = rng.choice([0.01, 0.03]), 1
    if fam == "crash_shutdown":
        p["kind"] = "prio"
        p["low"] = [rng.choice(["mgr", "mgr", "W", "u"])]
        p["tp"] = 0.0
        p["crash_at"] = [dict(label=rng.choice(["cq.rlock.acq", "cq.r.poll", "cq.r.recv", "cq.r.recv", "cq.sem.rel", "cq.rlock.rel", "rq.wlock.acq",
                                                "rq.w.send", "rq.wlock.rel", "exitlock"]), nth=rng.randint(1, 6))]
    if fam == "crash":
        r = rng.random()
        if r < 0.5:
            p["crash_at"] = [dict(label=rng.choice(WORKER_LABELS), nth=rng.randint(1, 3))]
        elif r < 0.7:
            p["pcrash"], p["max_crash"] = 0.01, rng.choice([1, 2])
    # how the environment's victims die: the usual signals, a real-time signal (no name in signal.Signals), plain exit statuses
    code = rng.choice([-11, -11, -9, -6, -37, -50, 1, 3])
    if "crash_at" in p:
        for c in p["crash_at"]:
            c["code"] = code
    if p.get("pcrash"):
        p["crash_code"] = code
    return p


def gen_cases(seed, n, fams):
    rng = random.Random(seed)
    cases = []
    for i in range(n):
        fam = fams[i % len(fams)]
        scn = FAMILIES[fam](rng)
        pol = policies(rng, fam)
        if "policy" in scn:          # the family places its own faults
            code = pol.get("crash_code", -11) if "crash_at" not in pol else pol["crash_at"][0].get("code", -11)
            pol.update(scn.pop("policy"))
            for c in pol.get("crash_at", []):
                c.setdefault("code", code)
        cases.append(dict(i=i, scn=scn, policy=pol, seed=rng.randrange(1 << 30), keep_decisions=False))
    return cases


# ------------------------------------------------------------------------------------------------------------
def run_sim(ctx, cases, tag, nshards=16):
    nsh = min(nshards, max(1, len(cases) // 8))
    files = []
    for k in range(nsh):
        f = os.path.join(ctx.work, "%s_in_%d.jsonl" % (tag, k))
        with open(f, "w") as fh:
            for c in cases[k::nsh]:
                fh.write(json.dumps(c) + "\n")
        files.append(f)

    def one(k):
        of = os.path.join(ctx.work, "%s_out_%d.jsonl" % (tag, k))
        rc, out = runner.run_child([runner.PY, "-m", "engine.sim.harness", files[k], of], cwd=runner.ROOT, timeout=3000,
                                   out_path=os.path.join(ctx.work, "%s_log_%d.txt" % (tag, k)))
        res = []
        if os.path.exists(of):
            for line in open(of):
                try:
                    res.append(json.loads(line))
                except ValueError:
                    pass
        if rc != 0:
            raise runner.Machinery("E-SIM child failed rc=%s after %d cases: %s" % (rc, len(res), out[-1500:]))
        return res
    with cf.ThreadPoolExecutor(nsh) as ex:
        outs = list(ex.map(one, range(nsh)))
    by = {}
    for o in outs:
        for r in o:
            by[r["i"]] = r
    if len(by) != len(cases):
        raise runner.Machinery("E-SIM processed %d of %d cases" % (len(by), len(cases)))
    for r in by.values():
        if r.get("harness_error"):
            raise runner.Machinery("E-SIM harness error: %s" % r["harness_error"])
    return [by[c["i"]] for c in cases]


def facts(case, out):
    """facts about a failing execution used to match open known findings"""
    tr = out["trace"]
    end = tr[-1] if tr and tr[-1]["ev"] == "end" else {}
    ops = [op[0] + (":nowait" if op[0] == "shutdown" and not op[1] else "") + (":kill" if op[0] == "shutdown" and op[2] else "")
           for u in case["scn"]["users"].values() for op in u]
    kinds = sorted({op[2] for u in case["scn"]["users"].values() for op in u if op[0] == "submit"})
    died = [d["role"] + ":" + d["exc"].split(":")[0] for d in out.get("died", [])]
    # (labels of a second executor instance carry a prefix "e2:": the signatures are about the operation)
    blocked = sorted({b["role"] + "@" + b["label"].split(":")[-1] for b in out.get("blocked", []) if b["proc"] == "parent"})
    return dict(fam=case["scn"].get("fam"), ops=ops, kinds=kinds, died=died, blocked=blocked,
                timeout=case["scn"]["exec"].get("timeout") is not None,
                clean_exits=sum(1 for e in tr if e["ev"] == "die" and e.get("how") == "exit"),
                crashes=sum(1 for e in tr if e["ev"] == "die" and e.get("how") == "crash"),
                crash_at=[e.get("at", "").split(":")[-1] for e in tr if e["ev"] == "die" and e.get("how") in ("crash", "killed")],
                crash_ann=[e.get("at", "").split(":")[-1] for e in tr if e["ev"] == "die" and e.get("how") in ("crash", "killed") and e.get("ann")],
                exc=[d["role"] + ":" + d["exc"][:120] for d in out.get("died", [])],
                end=end.get("how"))


def judge(ctx, prop, cases, outs, classify, label):
    """Run Mon_Exec with Prop=prop over all traces (one TLC run, one printed verdict per trace); report each
    distinct failing (why, defect signature) up to 3 times."""
    items = [(c, o, normalise(o["trace"], c["scn"])) for c, o in zip(cases, outs)]
    cfgname = "Mon_Exec_%s.cfg" % prop
    with open(os.path.join(ctx.work, cfgname), "w") as fh:
        fh.write('SPECIFICATION Spec\nCONSTANT Prop = "%s"\nCHECK_DEADLOCK FALSE\n' % prop)
    tf = os.path.join(ctx.work, "mon_%s_%s.json" % (prop, label))
    json.dump([t for _, _, t in items], open(tf, "w"))
    res = tlc.check(ctx.work, "Mon_Exec", cfgname, workers=16, timeout=2400, coverage=False, env={"TRACE_FILE": tf})
    ctx.add_tlc(res, "Mon_Exec[%s] on %d traces (%s)" % (prop, len(items), label))
    if res.violation:
        raise runner.Machinery("monitor run failed: %s\n%s" % (res.violation, res.out[-2500:]))
    want = sum(len(t) + 2 for _, _, t in items)
    if res.distinct != want:
        raise runner.Machinery("Mon_Exec consumed %d states, expected %d" % (res.distinct, want))
    verdicts = {}
    for line in res.out.splitlines():
        if line.startswith('"{') and "verdict" in line:
            v = json.loads(json.loads(line))
            verdicts[v["verdict"]] = v
    if len(verdicts) != len(items):
        raise runner.Machinery("Mon_Exec printed %d verdicts for %d traces" % (len(verdicts), len(items)))
    reported = collections.Counter()
    for k, (c, o, t) in enumerate(items, 1):
        v = verdicts[k]
        if v["ok"]:
            ctx.traces_validated += 1
            continue
        why, l = v["why"], v["at"]
        f = facts(c, o)
        sig = dict(kind="exec_monitor", why=why)
        sig.update(classify(why, f, c, o))
        key = (why, sig.get("defect"))
        reported[key] += 1
        if reported[key] <= 2:
            ctx.violation("%s [%s scenario, policy %s, seed %d] at event %d: %s | blocked=%s died=%s pending=%s" % (
                why, c["scn"].get("fam"), json.dumps(c["policy"]), c["seed"], l, json.dumps(o["trace"][l - 2] if 2 <= l <= len(o["trace"]) + 1 else {}),
                f["blocked"], f["died"], o.get("pending")),
                dict(engine="E-SIM", case=c, why=why, facts=f, event=l, how="python -m engine.sim.harness on a file holding `case`"),
                signature=sig)
    ctx.extra.setdefault("monitor_rejections", {}).update({"%s | %s" % k: n for k, n in reported.items()})
    return reported


def classify_default(why, f, c, o):
    return {}


def conformance(ctx, prop, classify):
    """code -> spec: E-SIM executions of the `trace` family are validated as behaviours of LokyExecutor.tla
    (Trace_LokyExecutor.tla).  A rejected execution is not an alarm by itself (the code may deviate from the specification
    without breaking the property): it directs the search -- the scenario is re-executed under many more schedules and
    crash points and judged by the property monitor, which is what raises alarms."""
    from checks import exec_trace
    n = 160 if ctx.tier == "thorough" else 32
    cases = gen_cases(ctx.seed * 7919 + 100 * int(prop[1:]) + 17, n, ["trace"])
    for c in cases:
        c["keep_decisions"] = True
    outs = run_sim(ctx, cases, "trc")
    res = exec_trace.validate(ctx, cases, outs, tag=prop)
    acc = [r for _, _, r in res if r.get("ok") is True]
    rej = [(c, o, r) for c, o, r in res if r.get("ok") is False]
    err = [r for _, _, r in res if r.get("ok") is None]
    if err:
        raise runner.Machinery("trace validation failed to run: %s" % err[0].get("err", "")[-800:])
    # self-test of the binding: an accepted execution with two of a worker's events swapped must be rejected
    tampered = None
    for c, o, r in res:
        if r.get("ok") is True:
            ev = exec_trace.project(o["decisions"], o["trace"], c["scn"])
            idx = [i for i, e in enumerate(ev) if e["a"] == "cq.r.recv"]
            if idx and idx[0] + 1 < len(ev):
                i = idx[0]
                j = next((k for k in range(i + 1, len(ev)) if ev[k]["w"] == ev[i]["w"]), None)
                if j is None:
                    continue
                ev[i], ev[j] = ev[j], ev[i]
                d = os.path.join(ctx.work, "trace_tamper_%s" % prop)
                exec_trace.write_instance(d, c, ev)
                tr = tlc.check(d, "Trace_LokyExecutor", "trace.cfg", workers=1, timeout=600, coverage=False, heap="3g")
                tampered = not (tr.violation and tr.violation[1] == "NotAccepted")
                break
    if tampered is False:
        raise runner.Machinery("Trace_LokyExecutor accepted a tampered trace (two events of a worker swapped): the trace spec constrains nothing")
    ctx.traces_validated += len(acc)
    ctx.extra["conformance"] = dict(executions=len(res), accepted=len(acc), rejected=len(rej), tamper_rejected=tampered,
                                    events=sum(r["n"] for _, _, r in res), tlc_states=sum(r.get("states", 0) for _, _, r in res),
                                    first_mismatches=[dict(scenario=c["scn"]["users"], matched=r["matched"], of=r["n"], next=r["next"],
                                                           before=r["before"][-3:]) for c, o, r in rej[:3]])
    for c, o in zip(cases, outs):
        ctx.case(key="trc:" + json.dumps([c["scn"]["users"], c["scn"]["exec"]]) + str(o["nsteps"]) + str(c["seed"]),
                 nontrivial=any(e["ev"] == "die" for e in o["trace"]))
    allc, allo = list(cases), list(outs)
    if rej:
        # amplification: the scenarios the specification cannot explain, under many more schedules and crash points
        ctx.notes.append("%d of %d executions are not behaviours of LokyExecutor.tla (first mismatch after event %d: %s); their "
                         "scenarios were re-executed under %d further schedules and judged by the monitor"
                         % (len(rej), len(res), rej[0][2]["matched"], rej[0][2]["next"], min(len(rej), 10) * 40))
        rng = random.Random(ctx.seed + 4242)
        amp = []
        for c, o, r in rej[:10]:
            for k in range(40):
                pol = policies(rng, "crash" if k % 2 else "mixed")
                amp.append(dict(i=len(amp), scn=c["scn"], policy=pol, seed=rng.randrange(1 << 30)))
        ampo = run_sim(ctx, amp, "amp")
        for c in amp:
            c["i"] += len(allc)
        allc += amp
        allo += ampo
    judge(ctx, prop, allc, allo, classify, "trace")


def run_property(ctx, prop, fams, n_quick, n_thorough, classify=classify_default, extra_cases=None):
    from checks import exec_model
    tlc.stage(ctx.work)
    tlc.sany(ctx.work, "Mon_Exec")
    # (A) design level: exhaustive TLC on LokyExecutor.tla slices; (B) spec -> code: TLC behaviours become E-SIM fault plans
    if os.environ.get("VERIF_DEV_SKIP_TLC"):       # development sweeps over many seeds only: never set by registered commands
        d17, guided = None, []
    else:
        d17 = exec_model.run_slices(ctx, prop)
        if prop in ("C09", "C10"):
            exec_model.run_reusable_slices(ctx)
        guided = exec_model.guided_cases(ctx, prop, 150 if ctx.tier == "thorough" else 25, d17)
    ctx.extra["tlc_guided_cases"] = len(guided)
    extra_cases = (extra_cases or []) + guided
    n = n_thorough if ctx.tier == "thorough" else n_quick
    cases = gen_cases(ctx.seed * 1000003 + int(prop[1:]), n, fams)
    if extra_cases:
        for c in extra_cases:
            c["i"] = len(cases)
            cases.append(c)
    outs = run_sim(ctx, cases, "sim")
    for c, o in zip(cases, outs):
        sig = json.dumps([c["scn"]["users"], c["scn"]["exec"]]) + str(o["nsteps"]) + str(c["seed"])
        nontrivial = any(e["ev"] == "die" for e in o["trace"]) or len(c["scn"]["users"]) > 1
        ctx.case(key=sig, nontrivial=nontrivial)
    ctx.extra["esim_executions"] = len(cases)
    ctx.extra["esim_steps"] = sum(o["nsteps"] for o in outs)
    ctx.extra["families"] = dict(collections.Counter(c["scn"]["fam"] for c in cases))
    k = len(cases) // 2
    ctx.sample(dict(scenario=cases[k]["scn"], policy=cases[k]["policy"], seed=cases[k]["seed"],
                    observed=outs[k]["trace"][:10], end=outs[k].get("end")))
    rep = judge(ctx, prop, cases, outs, classify, "esim")
    if prop in ("C01", "C02", "C03", "C04", "C05", "C06", "C07", "C08") and not os.environ.get("VERIF_DEV_SKIP_TLC"):
        conformance(ctx, prop, classify)
    ctx.rule = ("each case = one scenario (API history by 1-2 user threads over the real loky code on modelled primitives) x one "
                "seeded schedule (uniform / priority with change points, adversarial idle timeouts, crashes at chosen worker "
                "program points); distinct = distinct (scenario, seed, step count); non-trivial = a process died/left or two users raced")
    ctx.assumptions += ["E-SIM: modelled pipes/semaphores/processes (engine/sim/esim.py) are the trusted base; hangs are judged at "
                        "quiescence of the deterministic simulation, never by wall-clock",
                        "long timers (30 s exit handshake, 5 s sentinel cool-down) fire only when nothing else can move",
                        "the wakeup pipe never fills"]
    return cases, outs, rep
