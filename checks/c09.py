"""C09 - reusable executor property, decided on E-SIM executions of the real get_reusable_executor/_resize code by Mon_Exec[C09]."""
import os, sys
sys.path.insert(0, os.path.dirname(os.path.dirname(os.path.abspath(__file__))))
from vlib import runner
from checks import exec_common, exec_findings


def run(ctx):
    exec_common.run_property(ctx, "C09", ['reusable', 'reusable', 'resize_partial', 'reuse_kill', 'resize_strict', 'resize_grow_crash'], 400, 4000, classify=exec_findings.classify)


if __name__ == "__main__":
    sys.exit(runner.main("C09", run))
