"""C15, task-level clause: "the pickler selected when a task is submitted is the one its worker uses for the result".
The design-level statement is Pickling.tla (Submit / Dispatch / NameAtDispatch); the histories TLC enumerates for one
task (submit; set_loky_pickler(other) before / after the manager dispatches it) are executed on the real executor in E-SIM
and the pickler name observed inside the worker is compared with the name in force at submit time."""
import os, json
from vlib import runner, tlc
from checks import exec_common


def run(ctx, at_dispatch):
    # design level: with the switch describing the code, does the property hold?
    cfgname = "MC_Pickling_tasks.cfg"
    text = open(os.path.join(ctx.work, "MC_Pickling_quick.cfg")).read().replace("NameAtDispatch = FALSE", "NameAtDispatch = %s" % at_dispatch)
    if "INVARIANT WorkerUsesSubmitTimePickler" not in text:
        text += "\nINVARIANT WorkerUsesSubmitTimePickler\n"
    open(os.path.join(ctx.work, cfgname), "w").write(text)
    res = tlc.check(ctx.work, "MC_Pickling", cfgname, workers=8, timeout=900, coverage=False)
    ctx.add_tlc(res, "Pickling.tla task clause (NameAtDispatch=%s)" % at_dispatch)
    spec_fails = bool(res.violation)
    if spec_fails and at_dispatch != "TRUE":
        raise runner.Machinery("Pickling.tla: WorkerUsesSubmitTimePickler fails although the name is captured at submit")
    cases = []
    for k, (first, other) in enumerate([("cloudpickle", "pickle"), ("pickle", "cloudpickle")] * 10):
        u1 = [["set_pickler", first], ["submit", 1, "pickler"], ["set_pickler", other], ["submit", 2, "pickler"], ["wait_all"], ["set_pickler", "cloudpickle"], ["shutdown", True, False]]
        scn = dict(exec=dict(kind="plain", max_workers=1, timeout=None), users={"u1": u1}, fam="pickler")
        cases.append(dict(i=k, scn=scn, policy=dict(kind="prio", low=["mgr"] if k % 4 < 3 else ["u"], tp=0.0, change=0.02), seed=ctx.seed * 13 + k,
                          keep_decisions=False, expect={1: first, 2: other}))
    outs = exec_common.run_sim(ctx, cases, "pk", nshards=4)
    bad = 0
    for c, o in zip(cases, outs):
        ctx.case(key="pickler:%d" % c["seed"])
        got = {}
        for e in o["trace"]:
            if e["ev"] == "resolve" and e.get("outcome") == "result":
                v = e.get("value", "")
                for name in ("cloudpickle", "pickle"):
                    if "'%s'" % name in v:
                        got[e["t"]] = name
        wrong = {t: (got.get(t), want) for t, want in c["expect"].items() if got.get(t) != want}
        if wrong:
            bad += 1
            if bad <= 2:
                ctx.violation("C15 task submitted under one pickler ran under another: %s (task: (observed in the worker, selected at submit)); history %s" % (
                    wrong, c["scn"]["users"]["u1"]), dict(engine="E-SIM", case=c, wrong={str(k): v for k, v in wrong.items()},
                                                          how="python -m engine.sim.harness"), signature=dict(kind="pickler_name", defect="D9"))
        else:
            ctx.traces_validated += 1
    ctx.extra["pickler_name_cases"] = len(cases)
    if spec_fails and not bad:
        ctx.notes.append("Pickling.tla predicts D9 but the code did not exhibit it in %d executions" % len(cases))


def run_reducers(ctx):
    """executor-level scoping: job_reducers change the pickling of that executor's tasks, result_reducers of its results
    (defaulting to the job reducers), nothing else.  Expected values follow Pickling.tla's overlay rule."""
    combos = [(None, None), ("a", None), ("a", "b"), (None, "b"), ("a", "empty"), ("empty", "b"), ("empty", None)]
    val = lambda x: None if x in (None, "empty") else x
    cases = []
    for kind in ("plain", "reusable"):
        for rep in range(2):
            for (j, r) in combos:
                u1 = [["submit", 1, "tagged"], ["submit", 2, "tagged"], ["wait_all"], ["shutdown", True, False]]
                scn = dict(exec=dict(kind=kind, max_workers=2, timeout=None, job_reducers=j, result_reducers=r), users={"u1": u1}, fam="reducers")
                back = val(r) if r is not None else val(j)
                cases.append(dict(i=len(cases), scn=scn, policy=dict(kind="prio", tp=0.0, change=0.05), seed=ctx.seed * 17 + len(cases), keep_decisions=False,
                                  expect={1: dict(seen=val(j) or "plain", back=back or "plain"), 2: dict(seen=val(j) or "plain", back=back or "plain")}))
    # a sequence on the singleton: the same job reducers, then "results are not customised any more"
    for (j, r1, r2) in [("a", None, "empty"), ("a", "b", None), ("a", "empty", "b"), ("a", None, "b")]:
        u1 = [["submit", 1, "tagged"], ["wait_all"], ["reuse", 2, {"job_reducers": j, "result_reducers": r2} if r2 is not None else {"job_reducers": j}],
              ["submit", 2, "tagged"], ["wait_all"], ["shutdown", True, False]]
        scn = dict(exec=dict(kind="reusable", max_workers=2, timeout=None, job_reducers=j, result_reducers=r1), users={"u1": u1}, fam="reducers")
        b1 = (val(r1) if r1 is not None else val(j)) or "plain"
        b2 = (val(r2) if r2 is not None else val(j)) or "plain"
        cases.append(dict(i=len(cases), scn=scn, policy=dict(kind="prio", tp=0.0, change=0.05), seed=ctx.seed * 17 + len(cases), keep_decisions=False,
                          expect={1: dict(seen=j, back=b1), 2: dict(seen=j, back=b2)}))
    outs = exec_common.run_sim(ctx, cases, "rd", nshards=4)
    for c, o in zip(cases, outs):
        ctx.case(key="reducers:%s:%d" % (json.dumps(c["scn"]["exec"]), c["seed"]))
        bad = None
        n = 0
        for e in o["trace"]:
            if e["ev"] == "call_exc":
                bad = "get_reusable_executor raised %s: %s" % (e.get("type"), e.get("what"))
            if e["ev"] == "resolve":
                n += 1
                v = e.get("value", "")
                want = "['tagged', %d, '%s', '%s']" % (e["t"], c["expect"][e["t"]]["seen"], c["expect"][e["t"]]["back"])
                if e.get("outcome") != "result" or v != want:
                    bad = "task %s: observed %s (%s), expected %s" % (e["t"], v, e.get("type"), want)
        if n != 2 and not bad:
            bad = "only %d of 2 tasks resolved" % n
        if bad:
            ctx.violation("C15 %s executor with job_reducers=%s result_reducers=%s (history %s): %s  ([.., seen by the worker, seen by the parent])" % (
                c["scn"]["exec"]["kind"], c["scn"]["exec"]["job_reducers"], c["scn"]["exec"]["result_reducers"],
                [op for op in c["scn"]["users"]["u1"] if op[0] == "reuse"], bad),
                dict(engine="E-SIM", case=c, why=bad, how="python -m engine.sim.harness"), signature=dict(kind="executor_reducers"))
        else:
            ctx.traces_validated += 1
    ctx.extra["executor_reducer_cases"] = len(cases)
