"""LokyExecutor.tla: exhaustive TLC runs of per-feature slices (design-level result: the protocol implies the
properties within the constants), reproduction of open/fixed findings at the design level, and extraction of
TLC-derived fault plans / schedules that drive the real code in E-SIM (spec -> code direction)."""
import os, json, re, collections
from vlib import runner, tlc

# name: (K, Kind, MaxW, QSize, MaxCrash, MaxTimeout, MaxCancel, HasTimeout, FinalOps, InitFails, Pids)
SLICES = {
    "cancel":    (2, "K2_ok", 1, 1, 0, 0, 1, "FALSE", ["shutdown_wait", "exit"], [], 2),
    "timeout0":  (2, "K2_ok", 1, 1, 0, 1, 0, "TRUE", ["shutdown_wait"], [], 2),
    "timeout1":  (2, "K2_ok", 1, 1, 0, 1, 0, "TRUE", ["none", "shutdown_wait", "shutdown_nowait"], [], 2),
    "timeout2":  (2, "K2_ok", 1, 1, 0, 2, 0, "TRUE", ["none", "shutdown_wait", "shutdown_nowait"], [], 3),
    "crash":     (2, "K2_ok", 1, 1, 1, 0, 0, "FALSE", ["none", "shutdown_wait"], [], 2),
    "crash2":    (1, "K1_ok", 2, 2, 1, 0, 0, "FALSE", ["shutdown_wait"], [], 2),
    "huge":      (2, "K2_huge", 1, 2, 0, 0, 1, "FALSE", ["kill"], [], 2),
    "leak":      (2, "K2_ok", 1, 1, 0, 0, 0, "FALSE", ["none", "shutdown_wait"], [], 3, 1),
    "leak2":     (2, "K2_ok", 1, 1, 0, 1, 0, "TRUE", ["shutdown_wait", "shutdown_nowait"], [], 3, 1),
    "badarg":    (2, "K2_bad", 1, 1, 0, 0, 1, "FALSE", ["none", "shutdown_wait", "kill"], [], 2),
    "big":       (2, "K2_big", 1, 2, 1, 0, 0, "FALSE", ["none", "shutdown_wait"], [], 2),
    "kill":      (2, "K2_long", 1, 1, 0, 0, 1, "FALSE", ["kill"], [], 2),
    "del":       (2, "K2_ok", 1, 1, 0, 1, 0, "TRUE", ["del", "exit"], [], 2),
    "init":      (2, "K2_ok", 1, 1, 0, 0, 0, "FALSE", ["none"], ["p1"], 2),
    "unload":    (2, "K2_unload", 1, 1, 0, 0, 0, "FALSE", ["none", "shutdown_wait"], [], 2),
    "taskcrash": (2, "K2_crash", 2, 2, 0, 0, 0, "FALSE", ["none", "shutdown_wait"], [], 3),
    "crash_tmo": (2, "K2_ok", 1, 1, 1, 1, 0, "TRUE", ["none", "shutdown_wait"], [], 3),
    "mix3":      (3, "K3_mix", 1, 1, 0, 0, 1, "FALSE", ["shutdown_wait", "shutdown_nowait"], [], 2),
}
QUICK = {"C01": ["cancel", "timeout0", "crash", "kill", "init"], "C02": ["crash", "crash2", "init", "unload"],
         "C03": ["cancel", "timeout0"], "C04": ["badarg", "unload"], "C05": ["timeout0", "cancel"], "C06": ["kill"], "C20": ["huge"],
         "C07": ["timeout0", "leak"], "C08": ["timeout0", "unload"]}
# further slices of the thorough tier, per property (each is 1.7-14 M states, 1-8 minutes on 16 cores)
THOROUGH_EXTRA = {"C01": ["timeout1", "del", "taskcrash", "crash_tmo", "mix3", "big", "unload", "badarg", "huge", "crash2"],
                  "C02": ["taskcrash", "crash_tmo", "big", "unload"], "C03": ["timeout1", "mix3"], "C04": ["mix3", "big"],
                  "C05": ["timeout1", "del"], "C06": ["huge", "badarg"], "C07": ["timeout1", "timeout2", "crash_tmo", "leak2"],
                  "C08": ["timeout1", "mix3"], "C20": ["kill", "del"]}
INVS = ["AtMostOnce", "CancelMeansNeverRun", "RightFuture", "SlotConservation", "BoundedParallelism", "BrokenTotal",
        "TimeoutNeverBreaks", "CleanHandshakeOnly", "NoTimeoutWhileHolding"]
# behaviour of the code as it is now (flipped by fix: commits); D17 = CancelWakes
CODE_SWITCHES = {k: v for k, v in json.load(open(os.path.join(tlc.SPECS, "code_switches.json"))).items()
                 if k in ("WakeAfterSpawn", "KeepRefs", "SafeFail", "CancelWakes", "JoinWatches", "CloseReaderOnKill", "ExitChecked")}


def write_cfg(work, name, switches=None, invariants=INVS, spec="SpecF", symmetry=True, extra=""):
    K, kind, maxw, q, mc, mt, mx, hast, fops, initf, npids = SLICES[name][:11]
    maxleak = SLICES[name][11] if len(SLICES[name]) > 11 else 0
    sw = dict(CODE_SWITCHES)
    if switches:
        sw.update(switches)
    pids = ", ".join("p%d" % i for i in range(1, npids + 1))
    initf = ", ".join(initf)
    lines = ["SPECIFICATION %s" % spec, "CONSTANTS", "  Pids = {%s}" % pids, "  MaxW = %d" % maxw, "  K = %d" % K,
             "  Kind <- %s" % kind, "  QSize = %d" % q, "  MaxLeak = %d" % maxleak, "  MaxCrash = %d" % mc, "  MaxTimeout = %d" % mt, "  MaxCancel = %d" % mx,
             "  HasTimeout = %s" % hast, "  FinalOps = {%s}" % ", ".join('"%s"' % f for f in fops), "  InitFails = {%s}" % initf]
    lines += ["  %s = %s" % kv for kv in sw.items()]
    if symmetry:
        lines.append("SYMMETRY Perm")
    lines += ["INVARIANT %s" % i for i in invariants]
    if extra:
        lines.append(extra)
    fn = "MC_LokyExecutor_gen_%s_%s_%s.cfg" % (name, "_".join("%s%s" % (k[:2], v[0]) for k, v in sorted(sw.items())), "".join(i[:2] for i in invariants)[:12])
    with open(os.path.join(work, fn), "w") as fh:
        fh.write("\n".join(lines) + "\n")
    return fn


def run_slices(ctx, prop):
    """exhaustive TLC on the slices relevant to `prop`; a design-level violation on the spec that models the current
    code is either the reproduction of a known finding (D17 on slice 'cancel') or a machinery failure."""
    names = list(QUICK.get(prop, []))
    if ctx.tier == "thorough":
        names += [n for n in THOROUGH_EXTRA.get(prop, []) if n not in names]
    tlc.sany(ctx.work, "MC_LokyExecutor")
    d17 = None
    taken = {}
    for n in names:
        cfg = write_cfg(ctx.work, n)
        extra = n not in QUICK.get(prop, [])
        try:
            res = tlc.check(ctx.work, "MC_LokyExecutor", cfg, workers=16, timeout=(1500 if extra else 3000), coverage=(prop == "C01"), heap="12g")
        except tlc.TLCError as ex:
            if extra and "TLC timeout" in str(ex):
                # a thorough-only slice that does not finish in its budget is reported, it does not break the check
                ctx.notes.append("LokyExecutor.tla slice %s was not exhausted within 1500 s on this machine (no violation found so far)" % n)
                ctx.extra.setdefault("slices_not_exhausted", []).append(n)
                continue
            raise
        ctx.add_tlc(res, "LokyExecutor.tla slice %s (switches = code as it is)" % n)
        if prop == "C01":
            # vacuity guard: which labelled steps of the specification are never taken by any slice of this run
            for a, (dd, tt) in res.coverage.items():
                taken[a] = taken.get(a, 0) + tt
        if res.violation:
            cancels = res.trace[-1][1].get("cancels", 0) if res.trace else 0
            if res.violation[0] == "deadlock" and cancels > 0 and CODE_SWITCHES["CancelWakes"] == "FALSE":
                d17 = (n, res)
                # the repaired variant must be clean
                cfg2 = write_cfg(ctx.work, n, switches=dict(CancelWakes="TRUE"))
                res2 = tlc.check(ctx.work, "MC_LokyExecutor", cfg2, workers=16, timeout=3000, coverage=False, heap="12g")
                ctx.add_tlc(res2, "LokyExecutor.tla slice cancel with CancelWakes=TRUE")
                if res2.violation:
                    raise runner.Machinery("LokyExecutor slice cancel fails even with CancelWakes: %s" % (res2.violation,))
            else:
                raise runner.Machinery("LokyExecutor.tla slice %s: TLC reports %s (spec-level): last state %s" % (
                    n, res.violation, repr(res.trace[-1][1])[:1500] if res.trace else ""))
    if taken:
        ctx.extra["spec_actions_taken"] = len([a for a, t in taken.items() if t > 0])
        ctx.extra["spec_actions_never_taken"] = sorted(a for a, t in taken.items() if t == 0)
    # non-vacuity of the exemption for open findings: their windows must be reachable in the slices that have a crash budget
    if prop == "C02" or ctx.tier == "thorough":
        for n in [x for x in names if SLICES[x][4] > 0][:2]:
            cfg = write_cfg(ctx.work, n, invariants=["NoOpenWindow"], symmetry=True)
            res = tlc.check(ctx.work, "MC_LokyExecutor", cfg.replace(".cfg", ".cfg"), workers=16, timeout=1200, coverage=False, heap="12g")
            ctx.add_tlc(res, "LokyExecutor.tla slice %s: reachability of the open findings' windows (expected violation of NoOpenWindow)" % n)
            if res.violation and res.violation[1] == "NoOpenWindow":
                ctx.extra.setdefault("open_windows_reached", []).append(dict(slice=n, hit=sorted(str(x) for x in res.trace[-1][1]["hit"]),
                                                                            steps=len(res.trace)))
            else:
                ctx.notes.append("no open window reachable in slice %s (the exemption `hit # {}` is vacuous there)" % n)
    return d17


# --------------------------------------------------------------------------------------------------------------
# spec pc -> E-SIM label of the pending operation (binding table; validated against labels observed in E-SIM runs)
WLABEL = {"w0": "start", "winit": "init", "wrl": "cq.rlock.acq", "wpoll": "cq.r.poll", "wrlt": "cq.rlock.rel", "wrecv": "cq.r.recv",
          "wsem": "cq.sem.rel", "wrlrel": "cq.rlock.rel", "wrlrel0": "cq.rlock.rel", "wsem0": "cq.sem.rel", "wunl": "task.run", "wrun": "task.run", "wbody": "task.run",
          "wwl": "rq.wlock.acq", "wsend": "rq.w.send", "wsend2": "rq.w.send2", "wwrel": "rq.wlock.rel", "wtmo": "mgmt.try",
          "wmrel": "mgmt.rel", "wann": "rq.wlock.acq", "wann2": "rq.w.send", "wann3": "rq.wlock.rel", "wexl": "exitlock", "wexit": "exitlock"}
KINDMAP = {"ok": "ok", "bad_arg": "unpicklable_arg", "crash": "crash", "long": "long", "big": "big", "unload": "unloadable_arg", "huge": "hugearg"}
KINDS = {"K1_ok": ["ok"], "K2_ok": ["ok", "ok"], "K2_bad": ["bad_arg", "ok"], "K2_crash": ["crash", "ok"], "K2_big": ["big", "ok"],
         "K2_long": ["long", "ok"], "K2_huge": ["long", "huge"], "K3_mix": ["bad_arg", "ok", "big"], "K2_unload": ["unload", "ok"]}


def plan_from_behaviour(name, beh, seed):
    """one E-SIM case from one TLC behaviour of slice `name`: same tasks, same final operation, cancels, crashes at the
    program point TLC chose, thread priorities ordered like the mean position of each process in the behaviour"""
    K, kind, maxw, q, mc, mt, mx, hast, fops, initf, npids = SLICES[name][:11]
    kinds = KINDS[kind]
    last = beh[-1][1]
    fop = str(last["fop"])
    u1 = [["submit", i + 1, KINDMAP[k]] for i, k in enumerate(kinds)]
    users = {"u1": u1}
    cancelled = sorted(int(t) for t in last["cancelOK"])
    if cancelled:
        users["c"] = [["cancel", t] for t in cancelled]
    if fop == "shutdown_wait":
        u1 += [["shutdown", True, False]]
    elif fop == "shutdown_nowait":
        u1 += [["shutdown", False, False], ["wait_all"]]
    elif fop == "kill":
        u1 += [["shutdown", True, True]]
    elif fop == "del":
        u1 += [["del"], ["wait_all"]]
    elif fop == "exit":
        u1 += [["exit"], ["wait_all"]]
    else:
        u1 += [["wait_all"], ["settle"], ["submit", 95, "probe"], ["wait", 95], ["shutdown", True, False]]
    # crashes: find env steps
    crash_at = []
    pos = collections.defaultdict(list)
    prev = beh[0][1]
    for i, (act, st) in enumerate(beh[1:], 1):
        for p, v in st["pc"].items():
            if prev["pc"][p] != v:
                pos[str(p)].append(i)
        if st["crashes"] != prev["crashes"]:
            victim = [p for p in st["alive"] if st["alive"][p] == "dead" and prev["alive"][p] == "alive"]
            if victim:
                wpc = str(prev["pc"][victim[0]])
                crash_at.append(dict(label=WLABEL.get(wpc, "cq.rlock.acq"), nth=1,
                                     announcing=wpc in ("wann", "wann2", "wann3"), spec_pc=wpc, mgr_pc=str(prev["pc"]["M"])))
        prev = st
    order = sorted(pos, key=lambda p: sum(pos[p]) / max(1, len(pos[p])))
    role = {"U": "u", "M": "mgr", "F": "feeder", "C": "c", "E": None}
    prio = []
    for p in order:
        r = role.get(p, "W")
        if r and r not in prio:
            prio.append(r)
    ntimeouts = int(last["timeouts"])
    scn = dict(exec=dict(kind="plain", max_workers=maxw, timeout=0.5 if hast == "TRUE" else None,
                         initializer=bool(initf), init_fail=["all"] if initf else []), users=users, fam="tlc:" + name)
    pol = dict(kind="prio", tp=0.3 if ntimeouts else 0.0, change=0.02, order=prio, crash_at=crash_at)
    return dict(scn=scn, policy=pol, seed=seed, keep_decisions=False, tlc=dict(slice=name, steps=len(beh), fop=fop,
                                                                                  crashes=[c["spec_pc"] for c in crash_at]))


def guided_cases(ctx, prop, per_slice, d17=None):
    if d17 is not None:
        # the design-level counterexample itself, replayed with several seeds
        n, res = d17
        d17cases = []
        for k in range(40):
            c = plan_from_behaviour(n, res.trace, ctx.seed * 31 + k)
            c["policy"]["low"] = ["mgr"]
            c["tlc"]["counterexample"] = "D17"
            d17cases.append(c)
    else:
        d17cases = []
    names = list(QUICK.get(prop, []))
    if ctx.tier == "thorough":
        names += [n for n in THOROUGH_EXTRA.get(prop, []) if n not in names]
    cases = []
    for n in names:
        cfg = write_cfg(ctx.work, n, invariants=[], spec="SpecF", symmetry=False)
        behs, res = tlc.simulate(ctx.work, "MC_LokyExecutor", cfg, num=per_slice, depth=140, seed=ctx.seed + 17, timeout=900,
                                 tag="lx" + n)
        for k, b in enumerate(behs):
            if len(b) > 5:
                cases.append(plan_from_behaviour(n, b, ctx.seed * 7919 + k))
    return d17cases + cases


# --------------------------------------------------------------------------------------------------------------
# Reusable.tla: the singleton, its lock and _resize at the design level (C09, C10, C07 clause "resizes")
RSLICES = {  # name: (Size, MaxTimeout, HasTimeout, CallbackSubmits, UserShutdown, invariants, expected violation[, MaxCrash, RecheckAfterWait override])
    "grow":    ("Sz12", 1, "TRUE", "FALSE", "FALSE", ["IdsGrow", "NeverBroken"], None),
    "shrink":  ("Sz21", 1, "TRUE", "FALSE", "FALSE", ["IdsGrow", "NeverBroken"], None),
    "tmo2":    ("Sz12", 2, "TRUE", "FALSE", "FALSE", ["IdsGrow", "NeverBroken"], None),
    "cb":      ("Sz21", 0, "FALSE", "TRUE", "FALSE", ["IdsGrow"], None),
    "stop":    ("Sz12", 0, "FALSE", "FALSE", "TRUE", ["IdsGrow"], None),
    "cb_reach":   ("Sz21", 0, "FALSE", "TRUE", "FALSE", ["NoD6"], "NoD6"),
    "stop_reach": ("Sz12", 0, "FALSE", "FALSE", "TRUE", ["NoD18"], "NoD18"),
    # a worker dies at any moment, also while _resize waits for the jobs (D24)
    "crash":       ("Sz12", 0, "FALSE", "FALSE", "FALSE", ["IdsGrow", "@ReturnsUsable"], None, 1, None),
    "crash_shrink": ("Sz21", 1, "TRUE", "FALSE", "FALSE", ["IdsGrow", "@ReturnsUsable"], None, 1, None),
    "crash_d24":   ("Sz12", 0, "FALSE", "FALSE", "FALSE", ["@ReturnsUsable"], "ReturnsUsable", 1, "FALSE"),
    # grow, a worker the resize spawned dies, shrink again -- nothing but _resize itself can wake the manager up (D27)
    "grow_crash_shrink":     ("Sz121", 0, "FALSE", "FALSE", "FALSE", ["IdsGrow"], None, 1, None, dict(callers=3)),
    "grow_crash_shrink_d27": ("Sz121", 0, "FALSE", "FALSE", "FALSE", [], "deadlock", 1, None, dict(callers=3, WakeAfterResize="FALSE")),
}


def run_reusable_slices(ctx):
    sw = json.load(open(os.path.join(tlc.SPECS, "code_switches.json")))
    under = sw.get("SpawnUnderLock", "TRUE")
    tlc.sany(ctx.work, "MC_Reusable")
    recheck_code = sw.get("RecheckAfterWait", "TRUE")
    for name, spec in RSLICES.items():
        size, mt, hast, cb, us, invs, expect = spec[:7]
        maxcrash = spec[7] if len(spec) > 7 else 0
        recheck = (spec[8] if len(spec) > 8 and spec[8] else recheck_code)
        more = spec[9] if len(spec) > 9 else {}
        callers = ", ".join('"c%d"' % (i + 1) for i in range(more.get("callers", 2)))
        wake = more.get("WakeAfterResize", sw.get("WakeAfterResize", "TRUE"))
        fn = "MC_Reusable_gen_%s.cfg" % name
        with open(os.path.join(ctx.work, fn), "w") as fh:
            fh.write("SPECIFICATION SpecF\nCONSTANTS\n  Callers = {" + callers + "}\n  WakeAfterResize = " + wake + "\n  Size <- %s\n  Pids = {\"p1\", \"p2\", \"p3\", \"p4\"}\n"
                     "  MaxTimeout = %d\n  HasTimeout = %s\n  CallbackSubmits = %s\n  UserShutdown = %s\n  SpawnUnderLock = %s\n  MaxCrash = %d\n"
                     "  RecheckAfterWait = %s\n%s\n" % (
                         size, mt, hast, cb, us, under, maxcrash, recheck,
                         "\n".join(("PROPERTY " + i[1:]) if i.startswith("@") else ("INVARIANT " + i) for i in invs)))
        res = tlc.check(ctx.work, "MC_Reusable", fn, workers=8, timeout=900, coverage=False)
        ctx.add_tlc(res, "Reusable.tla slice %s (SpawnUnderLock=%s)" % (name, under))
        if expect:
            if not (res.violation and res.violation[1] == expect):
                ctx.notes.append("Reusable.tla: the window %s is not reachable in slice %s (exemption vacuous)" % (expect, name))
            else:
                ctx.extra.setdefault("reusable_open_windows_reached", []).append(expect[2:] if expect.startswith("No") else expect + " (switch off)")
        elif res.violation:
            raise runner.Machinery("Reusable.tla slice %s: TLC reports %s (spec-level): %s" % (name, res.violation, repr(res.trace[-1][1])[:1200] if res.trace else ""))
