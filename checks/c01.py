"""C01 - executor protocol property, decided on E-SIM executions of the real code by the TLA+ monitor Mon_Exec[C01]."""
import os, sys
sys.path.insert(0, os.path.dirname(os.path.dirname(os.path.abspath(__file__))))
from vlib import runner
from checks import exec_common, exec_findings


def run(ctx):
    exec_common.run_property(ctx, "C01", ['mixed', 'crash', 'timeout', 'kill', 'init', 'respawn_crash', 'callback', 'memleak', 'resize_grow_crash'], 400, 4000, classify=exec_findings.classify)


if __name__ == "__main__":
    sys.exit(runner.main("C01", run))
