"""C07 - executor protocol property, decided on E-SIM executions of the real code by the TLA+ monitor Mon_Exec[C07]."""
import os, sys
sys.path.insert(0, os.path.dirname(os.path.dirname(os.path.abspath(__file__))))
from vlib import runner, tlc
from checks import exec_common, exec_findings, c07_real


def run(ctx):
    tlc.stage(ctx.work)
    c07_real.run(ctx)
    exec_common.run_property(ctx, "C07", ['timeout', 'timeout', 'mixed', 'memleak', 'stalled_manager'], 300, 3000, classify=exec_findings.classify)


if __name__ == "__main__":
    sys.exit(runner.main("C07", run))
