"""C13 - decided on TrackerTree.tla (TLC) and on real process trees replaying its behaviours (checks/tree_common.py)."""
import os, sys
sys.path.insert(0, os.path.dirname(os.path.dirname(os.path.abspath(__file__))))
from vlib import runner
from checks import tree_common


def run(ctx):
    tree_common.run(ctx, "C13", {"track:sem", "collect", "vanish"}, 48, 400)


if __name__ == "__main__":
    sys.exit(runner.main("C13", run))
