"""C15 - serialisation customisation is scoped to where it was requested.
Pickling.tla (registries, back-end selection, per-call reducers; pickler name carried by a task) explored exhaustively by
TLC; every maximal path replayed on the real loky.backend.reduction (engine/pure/pickling_child.py); the task-level clause
(pickler name at submit vs. at dispatch) is replayed on the real executor in E-SIM from TLC's counterexample."""
import os, sys, json, collections
sys.path.insert(0, os.path.dirname(os.path.dirname(os.path.abspath(__file__))))
from vlib import runner, tlc
import concurrent.futures as cf

CHILD = os.path.join(runner.ROOT, "engine/pure/pickling_child.py")


def tab(f):
    return {str(k): str(v) for k, v in f.items()}


def shapes(ctx):
    """fidelity clause: Shapes.tla enumerates callables built from the supported kinds and predicts what calling them returns"""
    tlc.sany(ctx.work, "MC_Shapes")
    res = tlc.check(ctx.work, "MC_Shapes", "MC_Shapes_quick.cfg", workers=4, timeout=900, coverage=False)
    ctx.add_tlc(res, "Shapes.tla")
    if res.violation:
        raise runner.Machinery("Shapes.tla: %s" % (res.violation,))
    vecs = [json.loads(json.loads(l)) for l in res.out.splitlines() if l.startswith('"[\\"SHAPE')]
    if not vecs:
        raise runner.Machinery("Shapes.tla emitted no vector")
    vf, of = os.path.join(ctx.work, "shapes.jsonl"), os.path.join(ctx.work, "shapes_out.json")
    with open(vf, "w") as fh:
        for v in vecs:
            fh.write(json.dumps(v) + "\n")
    rc, out = runner.run_child([runner.PY, os.path.join(runner.ROOT, "engine/pure/shapes_child.py"), vf, of], timeout=900)
    if rc != 0 or not os.path.exists(of):
        raise runner.Machinery("shapes_child failed: %s" % out[-1000:])
    r = json.load(open(of))
    if r["n"] != len(vecs):
        raise runner.Machinery("shapes_child processed %d of %d" % (r["n"], len(vecs)))
    for v in vecs:
        ctx.case(key="shape:" + json.dumps(v[1:5]), nontrivial=len(v[2]) >= 1)
    ctx.traces_validated += len(vecs) - len(r["out"])
    ctx.extra["shape_vectors"] = len(vecs)
    for m in r["out"][:3]:
        v = m["vector"]
        ctx.violation("C15 fidelity: %s wrapped in partial layers %s, called with %s %s, after a round trip under the %s back-end gives %s; "
                      "the original gives %s and the property requires %s" % (v[1], v[2], v[3], v[4], m["backend"], m["got"], m["original"], m["want"]),
                      dict(engine="E-PURE", vector=v, detail=m, how="engine/pure/shapes_child.py"), signature=dict(kind="shape_roundtrip"))


def run(ctx):
    tlc.stage(ctx.work)
    tlc.sany(ctx.work, "MC_Pickling")
    cfg = "MC_Pickling_quick.cfg"
    if ctx.tier == "thorough":
        cfg = "MC_Pickling_thorough.cfg"
        with open(os.path.join(ctx.work, cfg), "w") as fh:
            fh.write(open(os.path.join(ctx.work, "MC_Pickling_quick.cfg")).read().replace("MaxOps = 4", "MaxOps = 5"))
    sw = json.load(open(os.path.join(tlc.SPECS, "code_switches.json")))
    at_dispatch = sw.get("NameAtDispatch", "TRUE")
    text = open(os.path.join(ctx.work, cfg)).read().replace("NameAtDispatch = FALSE", "NameAtDispatch = %s" % at_dispatch)
    if at_dispatch == "TRUE":
        text = text.replace("INVARIANT WorkerUsesSubmitTimePickler\n", "")
    open(os.path.join(ctx.work, cfg), "w").write(text)
    res = tlc.check(ctx.work, "MC_Pickling", cfg, workers=8, timeout=1800)
    ctx.require_spec_ok(res, "Pickling.tla (%s, NameAtDispatch=%s)" % (cfg, at_dispatch))
    gcfg = cfg.replace(".cfg", "_graph.cfg")
    with open(os.path.join(ctx.work, gcfg), "w") as fh:
        fh.write("\n".join(l for l in text.split("\n") if not l.startswith(("PROPERTY", "INVARIANT"))))
    nodes, edges, inits, res2 = tlc.dump_dot(ctx.work, "MC_Pickling", gcfg, workers=4, timeout=1800)
    ctx.add_tlc(res2, "Pickling.tla state graph")
    succ = collections.defaultdict(list)
    for s, d, lab in edges:
        succ[s].append(d)
    parent = {}
    q = collections.deque()
    for i in inits:
        parent[i] = None
        q.append(i)
    while q:
        s = q.popleft()
        for d in succ[s]:
            if d not in parent:
                parent[d] = s
                q.append(d)

    def path(s):
        p = []
        while parent[s] is not None:
            p.append(s)
            s = parent[s]
        return p[::-1]
    leaves = [s for s in parent if not succ[s]]
    cases = []
    for s in leaves:
        p = path(s)
        steps, exp = [], []
        for n in p:
            l = nodes[n]["last"]
            op = str(l[0])
            if op in ("submit", "dispatch"):
                continue
            if op == "dumps":
                steps.append(["dumps", tab(l[1])])
            else:
                steps.append([str(x) for x in l])
            exp.append(dict(out=tab(nodes[n]["out"]), copyreg=tab(nodes[n]["copyregT"]), loky=tab(nodes[n]["lokyT"]),
                            cls=tab(nodes[n]["clsT"]), pickler=str(nodes[n]["pickler"])))
        if steps:
            cases.append(dict(i=len(cases), steps=steps, exp=exp))
    seen, uniq = set(), []
    for c in cases:
        k = json.dumps(c["steps"])
        if k not in seen:
            seen.add(k)
            c["i"] = len(uniq)
            uniq.append(c)
    cases = uniq
    nsh = 16
    files = []
    for k in range(nsh):
        f = os.path.join(ctx.work, "p_in_%d.jsonl" % k)
        with open(f, "w") as fh:
            for c in cases[k::nsh]:
                fh.write(json.dumps(c) + "\n")
        files.append(f)

    def one(k):
        of = os.path.join(ctx.work, "p_out_%d.json" % k)
        rc, out = runner.run_child([runner.PY, CHILD, files[k], of], timeout=1800, out_path=os.path.join(ctx.work, "p_log_%d.txt" % k))
        if rc != 0 or not os.path.exists(of):
            raise runner.Machinery("pickling_child failed rc=%s: %s" % (rc, out[-1500:]))
        return json.load(open(of))
    with cf.ThreadPoolExecutor(nsh) as ex:
        outs = list(ex.map(one, range(nsh)))
    if sum(o["n"] for o in outs) != len(cases):
        raise runner.Machinery("pickling children processed %d of %d" % (sum(o["n"] for o in outs), len(cases)))
    bad = [m for o in outs for m in o["out"]]
    for c in cases:
        ctx.case(key=json.dumps(c["steps"]), nontrivial=sum(1 for s in c["steps"] if s[0] == "dumps") >= 1 and len(c["steps"]) > 1)
    ctx.traces_validated += len(cases) - len(bad)
    ctx.exhaustive = True
    ctx.extra["histories_replayed"] = len(cases)
    ctx.sample(dict(history=cases[len(cases) // 2]["steps"], expected_last=cases[len(cases) // 2]["exp"][-1]))
    seenw = collections.Counter()
    for m in bad:
        key = m["why"].split(":")[0][-40:] + m["why"][-30:]
        seenw[key] += 1
        if seenw[key] > 2 or len(ctx.violations) > 12:
            continue
        ctx.violation("C15 history %s: %s" % (m["steps"], m["why"]),
                      dict(engine="E-PURE", case=cases[m["i"]], why=m["why"], how="engine/pure/pickling_child.py"),
                      signature=dict(kind="pickling_replay"))
    ctx.rule = ("one replay per maximal path of the exhaustive state graph of Pickling.tla: sequences of set_loky_pickler, copyreg "
                "registrations, loky registrations and dumps() with every reducer map over 2 types x 2 tags; after every step the three "
                "process-wide registries are compared with the specification; non-trivial = contains a dumps and another operation")
    ctx.assumptions += ["reducer maps over two user types and two tags; both back-ends (cloudpickle, pickle)",
                        "fidelity of the built-in reducers (bound methods, partial, ...) is covered by c15_fidelity (differential, exploration-grade)"]
    from checks import c15_tasks
    c15_tasks.run(ctx, at_dispatch)
    c15_tasks.run_reducers(ctx)
    shapes(ctx)


if __name__ == "__main__":
    sys.exit(runner.main("C15", run))
