"""C20 - executor lifecycles leak no parent-side resources.
Lifecycle.tla (lifecycle typestate with a resource ledger) generates the histories; each is executed once and N more
times with real executors in a fresh interpreter and the parent's resource counts are compared (E-REAL); the exact
ledger of modelled processes/threads per exit path is judged by Mon_Exec[C20] on E-SIM executions."""
import os, sys, json, time
sys.path.insert(0, os.path.dirname(os.path.dirname(os.path.abspath(__file__))))
from vlib import runner, tlc
from checks import exec_common, exec_findings
import concurrent.futures as cf


def run(ctx):
    t0 = time.time()
    ph = ctx.extra.setdefault("phase_seconds", {})
    tlc.stage(ctx.work)
    tlc.sany(ctx.work, "MC_Lifecycle")
    sw = json.load(open(os.path.join(runner.ROOT, "specs", "code_switches.json")))["CloseReaderOnKill"]

    def cfg_with(name, base, val):
        with open(os.path.join(ctx.work, name), "w") as fh:
            fh.write(open(os.path.join(ctx.work, base)).read().replace("CloseReaderOnKill = TRUE", "CloseReaderOnKill = " + val))
        return name
    # (1) the property on the design, with the switch describing the code
    res = tlc.check(ctx.work, "MC_Lifecycle", cfg_with("lc_code.cfg", "MC_Lifecycle_quick.cfg", sw), workers=4, timeout=900, coverage=False)
    ctx.add_tlc(res, "Lifecycle.tla (CloseReaderOnKill=%s)" % sw)
    if res.violation:
        ctx.violation("C20 Lifecycle.tla with the switch values of the code (CloseReaderOnKill=%s): %s violated: a feeder thread blocked "
                      "sending a payload larger than the pipe buffer is never released when the workers are killed; last state %s"
                      % (sw, res.violation, res.trace[-1][1] if res.trace else None),
                      dict(engine="TLC", spec="Lifecycle.tla", cfg="lc_code.cfg", trace=[[a, {k: str(v) for k, v in st.items()}] for a, st in res.trace]),
                      signature=dict(kind="design", spec="Lifecycle", invariant=str(res.violation)))
    # (2) the specification can express the defect: without the switch the invariant fails
    res2 = tlc.check(ctx.work, "MC_Lifecycle", cfg_with("lc_noclose.cfg", "MC_Lifecycle_quick.cfg", "FALSE"), workers=4, timeout=900, coverage=False)
    if not res2.violation:
        raise runner.Machinery("Lifecycle.tla with CloseReaderOnKill=FALSE should violate ReleasedMeansNothingOwned (vacuity guard)")
    ctx.extra["lifecycle_switch_off_violates"] = str(res2.violation)
    # (3) generator
    res3 = tlc.check(ctx.work, "MC_Lifecycle", "MC_Lifecycle_gen.cfg", workers=4, timeout=900, coverage=False)
    if res3.violation:
        raise runner.Machinery("Lifecycle.tla generator: %s" % (res3.violation,))
    hists = set()
    for l in res3.out.splitlines():
        if l.startswith('"[\\"HIST'):
            h = json.loads(json.loads(l))[1]
            hists.add(json.dumps(h, sort_keys=True))
    hists = sorted(hists)
    if not hists:
        raise runner.Machinery("Lifecycle.tla emitted no history")
    ph["tlc_lifecycle"] = round(time.time() - t0, 1)
    t0 = time.time()
    hists = [json.loads(h) for h in hists]
    total = len(hists)
    singles = [h for h in hists if len(h) == 1]
    pairs = [h for h in hists if len(h) == 2]
    import random
    rng = random.Random(ctx.seed * 7919 + 5)
    rng.shuffle(pairs)
    hists = singles + pairs[:(40 if ctx.tier != "thorough" else 600)]
    reps = 3
    nsh = 32
    files = []
    for k in range(nsh):
        f = os.path.join(ctx.work, "lc_in_%d.jsonl" % k)
        with open(f, "w") as fh:
            for i, h in list(enumerate(hists))[k::nsh]:
                fh.write(json.dumps(dict(i=i, hist=list(h))) + "\n")
        files.append(f)

    def one(k):
        of = os.path.join(ctx.work, "lc_out_%d.json" % k)
        rc, out = runner.run_child([runner.PY, "-m", "engine.real.lifecycle_real", files[k], of, str(reps)], cwd=runner.ROOT, timeout=2400,
                                   out_path=os.path.join(ctx.work, "lc_log_%d.txt" % k))
        if not os.path.exists(of):
            raise runner.Machinery("lifecycle_real failed rc=%s: %s" % (rc, out[-1500:]))
        return json.load(open(of))
    with cf.ThreadPoolExecutor(nsh) as ex:
        outs = [r for o in ex.map(one, range(nsh)) for r in o]
    if len(outs) != len(hists):
        raise runner.Machinery("lifecycle runs: %d of %d" % (len(outs), len(hists)))
    ph["real_lifecycles"] = round(time.time() - t0, 1)
    ctx.extra["slowest_histories"] = [[r.get("seconds"), r["hist"]] for r in sorted(outs, key=lambda r: -(r.get("seconds") or 0))[:5]]
    t0 = time.time()
    for r in outs:
        ctx.case(key="lc:" + json.dumps(r["hist"]), nontrivial=len(r["hist"]) > 1 or r["hist"][0]["end"] not in ("wait", "ctx") or r["hist"][0]["load"] != "small")
        if "error" in r:
            if r.get("rc") in (-14, -9, None) and "Traceback" not in r["error"]:
                # killed by its 400 s alarm / the driver's time-out: the history (seconds of work) never completes -- whatever the
                # executor owns is never released
                ctx.violation("C20 history %s does not complete within 400 s: an executor that cannot finish its shutdown / release never "
                              "gives its resources back" % (r["hist"],), dict(engine="E-REAL", hist=r["hist"], rc=r.get("rc"),
                              how="python -m engine.real.lifecycle_real --one '<hist json>' out.json 3"), signature=dict(kind="lifecycle_hang"))
                continue
            raise runner.Machinery("lifecycle history %s did not complete: rc=%s %s" % (r["hist"], r.get("rc"), r["error"][-600:]))
        once, many = r["once"], r["many"]

        def grew(once, many, reps):
            # accumulation = at least one unit per repetition (a release that is merely late shows up as a bounded excess)
            d = {k: (once[k], many[k]) for k in ("fds", "threads", "children", "sems") if many[k] - once[k] >= reps}
            if many["zombies"]:
                d["zombies"] = many["zombies"]
            return d
        diffs = grew(once, many, reps)
        if diffs:
            # confirmation in a fresh interpreter with twice as many repetitions: the growth must scale
            cf_in = os.path.join(ctx.work, "lc_confirm_%d.jsonl" % r["i"])
            cf_out = os.path.join(ctx.work, "lc_confirm_%d.json" % r["i"])
            with open(cf_in, "w") as fh:
                fh.write(json.dumps(dict(i=r["i"], hist=r["hist"])) + "\n")
            runner.run_child([runner.PY, "-m", "engine.real.lifecycle_real", cf_in, cf_out, str(2 * reps)], cwd=runner.ROOT, timeout=2400,
                             out_path=os.path.join(ctx.work, "lc_confirm_%d.txt" % r["i"]))
            r2 = json.load(open(cf_out))[0] if os.path.exists(cf_out) else {}
            diffs2 = grew(r2["once"], r2["many"], 2 * reps) if "once" in r2 else {}
            if not diffs2:
                ctx.notes.append("history %s: growth %s was not reproduced with %d repetitions (%s -> %s): a late release, not an accumulation"
                                 % (r["hist"], diffs, 2 * reps, r2.get("once"), r2.get("many")))
                diffs = {}
            else:
                diffs = dict(first=diffs, confirmed=diffs2)
        if diffs:
            ctx.violation("C20 history %s repeated %d more times: resource counts grew (after once, after all): %s; threads: %s" % (
                r["hist"], reps, diffs, many["thread_names"]), dict(engine="E-REAL", hist=r["hist"], once=once, many=many,
                how="python -m engine.real.lifecycle_real --one '<hist json>' out.json 3"), signature=dict(kind="lifecycle_leak"))
        else:
            ctx.traces_validated += 1
    ctx.extra["histories_total"] = total
    ctx.extra["histories_executed"] = len(hists)
    ctx.sample(dict(history=outs[len(outs) // 2]["hist"], after_once=outs[len(outs) // 2]["once"], after_repeats=outs[len(outs) // 2]["many"]))
    ctx.assumptions += ["resource counts: /proc/self/fd, threading.active_count(), children of the process incl. zombies (tracker processes "
                        "excepted), /dev/shm/sem.loky-<pid>-*; measured after gc.collect() once three consecutive samples agree",
                        "lifecycles are the records [pool, load, busy, end] of Lifecycle.tla; quick executes all %d single lifecycles and 40 seed-chosen pairs, "
                        "thorough 600 pairs" % len(singles)]
    exec_common.run_property(ctx, "C20", ["mixed", "crash", "kill", "timeout"], 300, 3000, classify=exec_findings.classify)
    ph["esim_and_slices"] = round(time.time() - t0, 1)
    ctx.rule = ("E-REAL: one fresh interpreter per history generated by TLC from Lifecycle.tla, executed once then 3 more times, counts "
                "compared; E-SIM: Mon_Exec[C20] requires no process / management thread left once a lifecycle completed")


if __name__ == "__main__":
    sys.exit(runner.main("C20", run))
