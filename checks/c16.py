"""C16 - wrap_non_picklable_objects is behaviour-preserving.
Wrapper.tla (typestate of wrappers under wrap / plain-pickle round trip / call / mutation / instantiation) is explored
exhaustively by TLC; every transition of its state graph is replayed on real objects (engine/pure/wrapper_child.py)."""
import os, sys, json, collections
sys.path.insert(0, os.path.dirname(os.path.dirname(os.path.abspath(__file__))))
from vlib import runner, tlc
import concurrent.futures as cf

CHILD = os.path.join(runner.ROOT, "engine/pure/wrapper_child.py")
CALLABLE = {"lambda", "closure", "rec", "cinst", "ccls_inst", "icinst", "icls_inst"}
STATEFUL = {"closure", "cinst", "inst", "ccls_inst", "cls_inst", "icinst", "icls_inst", "sinst", "bufinst"}


def proj(h):
    k = str(h["kind"])
    if k == "none":
        return None
    iscls = k in ("ccls", "cls", "icls")
    p = dict(w=([True] if h["w"] else []) if iscls else [bool(x) for x in h["w"]], callable=True if iscls else (k in CALLABLE))
    if k in STATEFUL:
        p["st"] = h["st"]
    return p


def run(ctx):
    tlc.stage(ctx.work)
    tlc.sany(ctx.work, "MC_Wrapper")
    cfg = "MC_Wrapper_%s.cfg" % ("thorough" if ctx.tier == "thorough" else "quick")
    res = tlc.check(ctx.work, "MC_Wrapper", cfg, workers=8, timeout=1800)
    ctx.require_spec_ok(res, "Wrapper.tla (%s)" % cfg)
    gcfg = cfg.replace(".cfg", "_graph.cfg")
    with open(os.path.join(ctx.work, gcfg), "w") as fh:
        fh.write("\n".join(l for l in open(os.path.join(ctx.work, cfg)).read().split("\n") if not l.startswith(("PROPERTY", "INVARIANT"))))
    nodes, edges, inits, res2 = tlc.dump_dot(ctx.work, "MC_Wrapper", gcfg, workers=4)
    ctx.add_tlc(res2, "Wrapper.tla state graph")
    succ = collections.defaultdict(list)
    for s, d, lab in edges:
        succ[s].append(d)
    parent = {}
    q = collections.deque()
    for i in inits:
        parent[i] = None
        q.append(i)
    while q:
        s = q.popleft()
        for d in succ[s]:
            if d not in parent:
                parent[d] = s
                q.append(d)

    def path(s):
        p = []
        while parent[s] is not None:
            p.append(s)
            s = parent[s]
        return s, p[::-1]
    cases = []
    # every transition: path to its source + the transition. Only maximal paths are needed: a path covers its prefixes.
    leaves = [s for s in parent if not succ[s]]
    covered = set()
    for s in leaves:
        root, p = path(s)
        prev = root
        for x in p:
            covered.add((prev, x))
            prev = x
    todo = [(s, d) for s in parent for d in succ[s] if (s, d) not in covered]
    seqs = [path(s) for s in leaves] + [(path(s)[0], path(s)[1] + [d]) for s, d in todo]
    for root, p in seqs:
        if not p:
            continue
        steps = [[str(x) if not isinstance(x, (bool, int)) else x for x in nodes[n]["last"]] for n in p]
        exp = [dict(orig=proj(nodes[n]["orig"]), copy=proj(nodes[n]["copy"])) for n in p]
        cases.append(dict(i=len(cases), kind=str(nodes[root]["orig"]["kind"]), steps=steps, exp=exp))
    nsh = 8
    files = []
    for k in range(nsh):
        f = os.path.join(ctx.work, "w_in_%d.jsonl" % k)
        with open(f, "w") as fh:
            for c in cases[k::nsh]:
                fh.write(json.dumps(c) + "\n")
        files.append(f)

    def one(k):
        of = os.path.join(ctx.work, "w_out_%d.json" % k)
        rc, out = runner.run_child([runner.PY, CHILD, files[k], of], timeout=1200, out_path=os.path.join(ctx.work, "w_log_%d.txt" % k))
        if rc != 0 or not os.path.exists(of):
            raise runner.Machinery("wrapper_child failed rc=%s: %s" % (rc, out[-1500:]))
        return json.load(open(of))
    with cf.ThreadPoolExecutor(nsh) as ex:
        outs = list(ex.map(one, range(nsh)))
    if sum(o["n"] for o in outs) != len(cases):
        raise runner.Machinery("wrapper children processed %d of %d" % (sum(o["n"] for o in outs), len(cases)))
    bad = [m for o in outs for m in o["out"]]
    for c in cases:
        ctx.case(key=json.dumps([c["kind"], c["steps"]]), nontrivial=any(s[0] == "roundtrip" for s in c["steps"]))
    ctx.traces_validated += len(cases) - len(bad)
    ctx.exhaustive = True
    ctx.extra["graph_transitions"] = len(edges)
    ctx.extra["histories_replayed"] = len(cases)
    ctx.sample(dict(kind=cases[len(cases) // 2]["kind"], history=cases[len(cases) // 2]["steps"], expected=cases[len(cases) // 2]["exp"][-1]))
    seen = collections.Counter()
    for m in bad:
        d8 = "callable(" in m["why"] and m["kind"] == "ccls" and "requires True" in m["why"]
        key = ("D8" if d8 else m["why"].split(":")[1][:40])
        seen[key] += 1
        if seen[key] > 3:
            continue
        ctx.violation("C16 %s object, history %s: %s" % (m["kind"], m["steps"], m["why"]),
                      dict(engine="E-PURE", case=cases[m["i"]], why=m["why"], how="engine/pure/wrapper_child.py"),
                      signature=dict(kind="wrapper_replay", defect="D8" if d8 else None))
    ctx.rule = ("one replay per maximal path of the exhaustive state graph of Wrapper.tla plus one per transition not on such a path; "
                "distinct = distinct histories; non-trivial = contains a plain-pickle round trip")
    ctx.assumptions += ["object kinds: lambda, closure with nonlocal state, recursive nested function, callable / non-callable instance, "
                        "classes with a constructor argument, an instance of a class with __slots__, an instance holding a PickleBuffer; plain-pickle protocols as listed in the cfg; 'any object cloudpickle can serialise' is covered for these kinds only",
                        "objects live in the child's __main__ so that plain pickle cannot serialise them"]


if __name__ == "__main__":
    sys.exit(runner.main("C16", run))
