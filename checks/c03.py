"""C03 - executor protocol property, decided on E-SIM executions of the real code by the TLA+ monitor Mon_Exec[C03]."""
import os, sys
sys.path.insert(0, os.path.dirname(os.path.dirname(os.path.abspath(__file__))))
from vlib import runner
from checks import exec_common, exec_findings


def map_vectors(ctx):
    """MapChunks.tla: TLC checks the chunking law and emits one vector per (lengths, chunksize); the real helper
    pipeline is run on each."""
    import json, os
    from vlib import tlc
    tlc.sany(ctx.work, "MC_MapChunks")
    cfg = "MC_MapChunks_%s.cfg" % ("thorough" if ctx.tier == "thorough" else "quick")
    res = tlc.check(ctx.work, "MC_MapChunks", cfg, workers=4, timeout=900, coverage=False)
    ctx.add_tlc(res, "MapChunks.tla (%s)" % cfg)
    if res.violation:
        raise runner.Machinery("MapChunks.tla: %s" % (res.violation,))
    vecs = [json.loads(json.loads(l)) for l in res.out.splitlines() if l.startswith('"[\\"VEC')]
    if not vecs:
        raise runner.Machinery("MapChunks.tla emitted no vector")
    vf, of = os.path.join(ctx.work, "map_vecs.jsonl"), os.path.join(ctx.work, "map_out.json")
    with open(vf, "w") as fh:
        for v in vecs:
            fh.write(json.dumps(v) + "\n")
    rc, out = runner.run_child([runner.PY, os.path.join(runner.ROOT, "engine/pure/map_child.py"), vf, of], timeout=600)
    if rc != 0 or not os.path.exists(of):
        raise runner.Machinery("map_child failed: %s" % out[-800:])
    r = json.load(open(of))
    if r["n"] != len(vecs):
        raise runner.Machinery("map_child processed %d of %d" % (r["n"], len(vecs)))
    for v in vecs:
        ctx.case(key="map:%s" % json.dumps(v[1:3]), nontrivial=len(v[1]) > 1 or v[2] > 1)
    ctx.traces_validated += len(vecs) - len(r["out"])
    ctx.extra["map_vectors"] = len(vecs)
    for m in r["out"][:3]:
        ctx.violation("C03 map clause: iterables of lengths %s with chunksize=%d: %s" % (m["lens"], m["chunksize"], m["why"]),
                      dict(engine="E-PURE", vector=m, how="engine/pure/map_child.py"), signature=dict(kind="map_vector"))


def run(ctx):
    from vlib import tlc
    tlc.stage(ctx.work)
    map_vectors(ctx)
    exec_common.run_property(ctx, "C03", ['mixed', 'timeout', 'crash', 'map'], 300, 3000, classify=exec_findings.classify)


if __name__ == "__main__":
    sys.exit(runner.main("C03", run))
