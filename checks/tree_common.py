"""Shared by C12 and C13: TrackerTree.tla checked by TLC, simulated behaviours replayed on a real tree of loky processes."""
import os, json, collections
from vlib import runner, tlc
import concurrent.futures as cf


def to_case(i, beh):
    steps, exp = [], []
    first = beh[0][1]
    parent = {str(c): str(p) for c, p in first["parent"].items()}
    for act, st in beh[1:]:
        l = st["last"]
        steps.append([x if isinstance(x, int) and not isinstance(x, bool) else str(x) for x in l])
        exp.append(dict(alive={str(p): str(v) for p, v in st["alive"].items()}, trk={str(p): v for p, v in st["trk"].items()},
                        tAlive={str(t + 1): bool(v) for t, v in enumerate(st["tAlive"])} if isinstance(st["tAlive"], tuple)
                        else {str(t): bool(v) for t, v in st["tAlive"].items()},
                        swept={str(t + 1): bool(v) for t, v in enumerate(st["swept"])} if isinstance(st["swept"], tuple)
                        else {str(t): bool(v) for t, v in st["swept"].items()},
                        res=[dict(kind=str(r["kind"]), exists=bool(r["exists"]), tracker=int(r["tracker"])) for r in st["res"]]))
    owners = [str(r["owner"]) for r in beh[-1][1]["res"]]
    # does the specification expect a tracker to have swept a semaphore (a "leaked semlock" report is then legitimate)?
    # a semaphore that disappears in its own `collect` step, or when its owner ends normally, was properly released
    sweep_sem = False
    prev = beh[0][1]
    for act, st in beh[1:]:
        l = [str(x) for x in st["last"]]
        for i, r in enumerate(st["res"]):
            was = prev["res"][i]["exists"] if i < len(prev["res"]) else True
            if str(r["kind"]) == "sem" and was and not r["exists"]:
                proper = (l[0] == "collect" and int(st["last"][1]) == i + 1) or (l[0] == "die" and l[2] == "exit" and l[1] == str(r["owner"]))
                if not proper:
                    sweep_sem = True
        # a process that is killed while it owns a semaphore leaves it to the tracker even if the sweep comes later
        if l[0] == "die" and l[2] == "kill" and any(str(r["kind"]) == "sem" and r["exists"] and str(r["owner"]) == l[1] for r in st["res"]):
            sweep_sem = True
        if l[0] == "killtracker":
            sweep_sem = True        # (resources known to a killed tracker: re-registration / later reports are not predicted)
        prev = st
    conf = dict(method=str(first["conf"]["method"]), imp=bool(first["conf"]["imp"]), strict=bool(first["conf"]["strict"]))
    return dict(i=i, parent=parent, steps=steps, exp=exp, owners=owners, conf=conf, sweep_sem=sweep_sem)


def run(ctx, prop, want_ops, num_quick, num_thorough):
    tlc.stage(ctx.work)
    tlc.sany(ctx.work, "MC_TrackerTree")
    cfg = "MC_TrackerTree_quick.cfg"
    if ctx.tier == "thorough":
        cfg = "MC_TrackerTree_thorough.cfg"
        with open(os.path.join(ctx.work, cfg), "w") as fh:
            fh.write(open(os.path.join(ctx.work, "MC_TrackerTree_quick.cfg")).read().replace("MaxOps = 6", "MaxOps = 7").replace("MaxT = 2", "MaxT = 3"))
    res = tlc.check(ctx.work, "MC_TrackerTree", cfg, workers=16, timeout=2400)
    ctx.require_spec_ok(res, "TrackerTree.tla (%s)" % cfg)
    num = num_thorough if ctx.tier == "thorough" else num_quick
    gcfg = cfg.replace(".cfg", "_sim.cfg")
    with open(os.path.join(ctx.work, gcfg), "w") as fh:
        fh.write("\n".join(l for l in open(os.path.join(ctx.work, cfg)).read().split("\n") if not l.startswith(("PROPERTY", "INVARIANT"))))
    behs, _ = tlc.simulate(ctx.work, "MC_TrackerTree", gcfg, num=num * 25, depth=9, seed=ctx.seed + 23, timeout=900, tag="tt")
    cases = []
    seen = set()

    def rare_first(b):
        # behaviours exercising the rare combinations first: a tracked file that vanished and a tracker that then has to sweep
        # (the last holder dies), in the strict configuration
        ops = [str(st["last"][0]) for _, st in b[1:]]
        strict = bool(b[0][1]["conf"]["strict"])
        v = False
        for k, (_, st) in enumerate(b[1:]):
            if str(st["last"][0]) == "vanish":
                i = int(st["last"][1]) - 1
                others = [r for j, r in enumerate(st["res"]) if j != i and r["registered"] and r["exists"] and r["tracker"] == st["res"][i]["tracker"]]
                if others and "die" in ops[k:]:
                    v = True
        return (0 if (v and strict and prop == "C13") else 1 if (v and prop == "C13") else 2)
    behs = sorted(behs, key=rare_first)
    quota = {0: num // 4, 1: num // 8}
    used = {0: 0, 1: 0}
    for b in behs:
        r = rare_first(b)
        if r in quota:
            if used[r] >= quota[r]:
                continue
            used[r] += 1
        ops = [str(st["last"][0]) + (":" + str(st["last"][2]) if str(st["last"][0]) == "track" else "") for _, st in b[1:]]
        if not any(o in want_ops for o in ops) or len(b) < 4:
            continue
        c = to_case(len(cases), b)
        k = json.dumps([c["steps"], c["conf"]])
        if k in seen:
            continue
        seen.add(k)
        cases.append(c)
        if len(cases) >= num:
            break
    if len(cases) < 5:
        raise runner.Machinery("too few usable behaviours of TrackerTree.tla: %d" % len(cases))
    nsh = 16
    scratch = os.path.join(ctx.work, "tree")
    os.makedirs(scratch, exist_ok=True)
    files = []
    for k in range(nsh):
        f = os.path.join(ctx.work, "tt_in_%d.jsonl" % k)
        with open(f, "w") as fh:
            for c in cases[k::nsh]:
                fh.write(json.dumps(c) + "\n")
        files.append(f)

    def one(k):
        of = os.path.join(ctx.work, "tt_out_%d.json" % k)
        sc = os.path.join(scratch, "s%d" % k)
        os.makedirs(sc, exist_ok=True)
        rc, out = runner.run_child([runner.PY, "-m", "engine.real.tree_controller", files[k], of, sc], cwd=runner.ROOT, timeout=2400,
                                   out_path=os.path.join(ctx.work, "tt_log_%d.txt" % k))
        if not os.path.exists(of):
            raise runner.Machinery("tree_controller failed rc=%s: %s" % (rc, out[-1500:]))
        return json.load(open(of))
    with cf.ThreadPoolExecutor(nsh) as ex:
        outs = list(ex.map(one, range(nsh)))
    if sum(o["n"] for o in outs) != len(cases):
        raise runner.Machinery("tree controllers processed %d of %d" % (sum(o["n"] for o in outs), len(cases)))
    bad = [m for o in outs for m in o["out"]]
    for m in bad:
        if m["why"].startswith("harness:") or "does not answer" in m["why"] or "no reply" in m["why"]:
            raise runner.Machinery("tree_controller: %s on %s | %s" % (m["why"], m["steps"], m.get("log", "")[-300:]))
    for c in cases:
        ctx.case(key=json.dumps([c["steps"], c["conf"]]), nontrivial=any(s[0] in ("killtracker", "die", "signal") for s in c["steps"]))
    mine = [m for m in bad if (("semaphore" in m["why"]) or ("reported" in m["why"])) == (prop == "C13")]
    ctx.traces_validated += len(cases) - len(mine)
    ctx.extra["behaviours_replayed_on_real_trees"] = len(cases)
    ctx.extra["mismatches_other_property"] = len(bad) - len(mine)
    ctx.sample(dict(tree=cases[0]["parent"], history=cases[0]["steps"], expected_last=cases[0]["exp"][-1]))
    cnt = collections.Counter()
    for m in mine:
        k = m["why"].split(":", 1)[-1][:50]
        cnt[k] += 1
        if cnt[k] > 2:
            continue
        ctx.violation("%s real process tree, history %s: %s" % (prop, m["steps"], m["why"]),
                      dict(engine="E-REAL", case=cases[m["i"]], why=m["why"], how="python -m engine.real.tree_controller"),
                      signature=dict(kind="tree_replay"))
    ctx.rule = ("behaviours of TrackerTree.tla from `tlc -simulate` (trees of 3 processes, <= 6/7 operations: spawn, tracked file, named "
                "semaphore, collect, exit, SIGKILL, SIGINT/SIGTERM to the tracker, SIGKILL of the tracker) replayed on real loky processes; "
                "after every step tracker identity per process, tracker liveness and existence of every resource are compared")
    ctx.assumptions += ["agents obey a file mailbox; a normal process end runs multiprocessing's finalizers and then os._exit (children are not "
                        "joined); sweeps are awaited up to 8 s; 'still exists' is checked shortly after the step",
                        "start method loky only; signals during tracker start-up are not targeted"]
