"""C18 - every worker is a fresh, initialised interpreter with only intended inheritance.
Process-level clauses: Spawn.tla enumerated by TLC, every (quick: a covering subset) configuration executed with real loky
processes.  Initializer clauses: E-SIM executions of the real executor judged by Mon_Exec[C18] and the task bodies'
initialisation marks (C03-style value check)."""
import os, sys, json
sys.path.insert(0, os.path.dirname(os.path.dirname(os.path.abspath(__file__))))
from vlib import runner, tlc
from checks import exec_common, exec_findings
import concurrent.futures as cf

PARENT = os.path.join(runner.ROOT, "engine/real/spawn_parent.py")


def run(ctx):
    tlc.stage(ctx.work)
    tlc.sany(ctx.work, "MC_Spawn")
    cfg = "MC_Spawn_%s.cfg" % ("thorough" if ctx.tier == "thorough" else "quick")
    res = tlc.check(ctx.work, "MC_Spawn", cfg, workers=8, timeout=1800, coverage=False)
    ctx.add_tlc(res, "Spawn.tla (%s)" % cfg)
    if res.violation:
        raise runner.Machinery("Spawn.tla: %s" % (res.violation,))
    vecs = [json.loads(json.loads(l)) for l in res.out.splitlines() if l.startswith('"[\\"VEC')]
    if not vecs:
        raise runner.Machinery("Spawn.tla emitted no vector")
    vecs.sort(key=lambda v: json.dumps(v))
    total = len(vecs)
    # covering subset: every descriptor combination, every overlay, every way of ending at least several times
    # (thorough: the larger configuration space of MC_Spawn_thorough.cfg, every 3rd configuration, rotating with the seed)
    stride = 7 if ctx.tier != "thorough" else 3
    vecs = [v for i, v in enumerate(vecs) if (i + ctx.seed) % stride == 0]
    nsh = 32 if ctx.tier == "thorough" else 16
    scratch = os.path.join(ctx.work, "spawn")
    os.makedirs(scratch, exist_ok=True)
    files = []
    # shards are pure in the launch mode: even shards start the parent as a script, odd ones with -m
    by_launch = {"script": [v for v in vecs if v[8] == "script"], "module": [v for v in vecs if v[8] == "module"]}
    for k in range(nsh):
        f = os.path.join(ctx.work, "sp_in_%d.jsonl" % k)
        mine = by_launch["script" if k % 2 == 0 else "module"][k // 2::nsh // 2]
        with open(f, "w") as fh:
            for v in mine:
                fh.write(json.dumps(v) + "\n")
        files.append(f)

    def one(k):
        of = os.path.join(ctx.work, "sp_out_%d.json" % k)
        sc = os.path.join(scratch, str(k))
        os.makedirs(sc, exist_ok=True)
        counter = os.path.join(sc, "main_counter")
        open(counter, "w").close()
        launch = [PARENT] if k % 2 == 0 else ["-m", "engine.real.spawn_parent"]
        rc, out = runner.run_child([runner.PY] + launch + [files[k], of, sc], cwd=runner.ROOT, timeout=7200,
                                   env={"VERIF_MAIN_COUNTER": counter}, out_path=os.path.join(ctx.work, "sp_log_%d.txt" % k))
        if not os.path.exists(of):
            raise runner.Machinery("spawn_parent failed rc=%s: %s" % (rc, out[-1500:]))
        return json.load(open(of))
    with cf.ThreadPoolExecutor(nsh) as ex:
        outs = list(ex.map(one, range(nsh)))
    if sum(o["n"] for o in outs) != len(vecs):
        raise runner.Machinery("spawn parents processed %d of %d" % (sum(o["n"] for o in outs), len(vecs)))
    bad = [m for o in outs for m in o["out"]]
    for m in bad:
        if m["why"].startswith("harness:"):
            raise runner.Machinery("spawn_parent: %s on %s" % (m["why"], m["vector"]))
    for v in vecs:
        ctx.case(key=json.dumps(v[1:5] + [v[8]]), nontrivial=any(s != "absent" for s in v[1].values()) or any(s != "absent" for s in v[2].values()))
    ctx.traces_validated += len(vecs) - len(bad)
    ctx.extra["spawn_configurations_total"] = total
    ctx.extra["spawn_configurations_executed"] = len(vecs)
    ctx.exhaustive = (len(vecs) == total)
    v = vecs[len(vecs) // 2]
    ctx.sample(dict(parent_fds=v[1], env_overlay=v[2], end=v[3], method=v[4], launch=v[8], expected_child_env=v[5], expected_exitcode=v[6]))
    seen = {}
    for m in bad:
        k = m["why"][:40]
        seen[k] = seen.get(k, 0) + 1
        if seen[k] > 2:
            continue
        ctx.violation("C18 real loky process: %s" % m["why"], dict(engine="E-REAL", vector=m["vector"], why=m["why"],
                      how="engine/real/spawn_parent.py on a file holding this vector"), signature=dict(kind="spawn_real"))
    ctx.assumptions += ["extra descriptors are regular files opened at numbers 57, 123, 240 (checked to be free in the parent) (inheritable or not); 'inherited' is decided by the "
                        "marker target seen in the child's /proc/self/fd, not by the number", "Linux /proc; CPython 3.12"]
    # initializer clauses on E-SIM
    exec_common.run_property(ctx, "C18", ["init", "init", "respawn_crash"], 200, 2000, classify=exec_findings.classify)
    ctx.rule = ("process-level: one real LokyProcess per configuration emitted by TLC from Spawn.tla (quick: every 7th of the sorted "
                "list, rotating with the seed); initializer clauses: E-SIM executions (families init / respawn_crash)")


if __name__ == "__main__":
    sys.exit(runner.main("C18", run))
