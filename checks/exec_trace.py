"""Code -> spec: validate E-SIM executions of the real executor code against LokyExecutor.tla (Trace_LokyExecutor.tla).

The recorded `decisions` of an E-SIM run (thread, primitive operation, outcome) are projected onto the key events of
Trace_LokyExecutor.tla (a pure projection: renaming and dropping, no reordering, no guessing of state); the constants
of the specification are read off the scenario.  One TLC run per execution (single worker, BFS over the positions the
silent steps allow)."""
import os, re, json, shutil
import concurrent.futures as cf
from vlib import tlc, runner

KINDMAP = {"ok": "ok", "probe": "ok", "raise": "ok", "long": "long", "big": "big", "crash": "crash", "unpicklable_arg": "bad_arg",
           "hugearg": "huge", "oserror_arg": "bad_arg", "ebadf_arg": "bad_arg", "epipe_arg": "bad_arg", "partial_kw": "ok"}
KEY = {
    "W": {"cq.rlock.acq", "cq.r.poll", "cq.r.poll0", "cq.r.recv", "cq.sem.rel", "cq.rlock.rel", "task.run", "task.crash", "rq.wlock.acq", "rq.w.send",
          "rq.w.send2", "rq.wlock.rel", "mgmt.try", "mgmt.rel", "exitlock.acq"},
    "F": {"cq.w.send", "cq.sem.rel", "pending.pop", "running.remove", "wk.w.send"},
    "U": {"pending.set", "spawn", "procs.set", "wk.w.send", "tjoin"},
    "M": {"cq.sem.iszero", "fut.set_running", "running.add", "cq.sem.acq", "wait", "rq.r.recv", "pending.pop", "running.remove", "procs.pop",
          "exitlock.rel", "pjoin", "killtree", "cq.sem.try", "spawn", "procs.set", "wk.w.send"},
}


def supported(case):
    """scenarios whose every operation has a counterpart in LokyExecutor.tla"""
    scn = case["scn"]
    if scn["exec"].get("kind") != "plain" or len(scn["users"]) != 1 or scn["exec"].get("initializer"):
        return False
    ops = list(scn["users"].values())[0]
    fin = 0
    for i, op in enumerate(ops):
        if op[0] == "submit":
            if op[2] not in KINDMAP or fin:
                return False
        elif op[0] in ("shutdown", "del", "exit"):
            fin += 1
            if fin > 1:
                return False
        elif op[0] == "cancel":
            if fin:
                return False
        elif op[0] in ("wait", "wait_all", "settle", "sleep"):
            if fin and op[0] != "wait_all":
                return False
        else:
            return False
    return True


def constants(case, events):
    scn = case["scn"]
    ops = list(scn["users"].values())[0]
    kinds = [KINDMAP[op[2]] for op in ops if op[0] == "submit"]
    fop = "none"
    for op in ops:
        if op[0] == "shutdown":
            fop = "kill" if op[2] else ("shutdown_wait" if op[1] else "shutdown_nowait")
        elif op[0] in ("del", "exit"):
            fop = op[0]
    maxw = scn["exec"]["max_workers"]
    nsp = max([int(e["x"][1:]) for e in events if e["a"] == "spawn"] + [1])
    sw = json.load(open(os.path.join(tlc.SPECS, "code_switches.json")))
    return dict(pids=["p%d" % i for i in range(1, nsp + 1)], maxw=maxw, kinds=kinds, qsize=2 * maxw + 1,
                maxcrash=sum(1 for e in events if e["w"] == "E"), maxcancel=sum(1 for e in events if e["w"] == "C"), maxtimeout=sum(1 for e in events if e["o"] == "timeout" or e["a"] == "cq.r.poll0") + 1,
                hastimeout=scn["exec"].get("timeout") is not None, fop=fop,
                switches={k: sw[k] for k in ("WakeAfterSpawn", "KeepRefs", "SafeFail", "CancelWakes", "JoinWatches", "CloseReaderOnKill", "ExitChecked")})


def project(decisions, obs=(), scn=None):
    """E-SIM decisions -> key events (renaming + dropping only); workers are named p1, p2, ... in spawn order"""
    ev = []
    nspawn = 0
    # successful cancel() calls, in the order each user thread made them (the k-th `fut.cancel` operation of a thread is its
    # k-th `cancel` observation); task ids are numbered in submission order as in the specification
    cancels = {}
    for e in obs:
        if e.get("ev") == "cancel":
            cancels.setdefault(e["u"], []).append(e)
    index = {}
    if scn:
        for op in list(scn["users"].values())[0]:
            if op[0] == "submit":
                index[op[1]] = len(index) + 1
    already = set()
    order = [e["pid"] for e in obs if e.get("ev") == "spawn"]
    pname = {str(pid): "p%d" % (i + 1) for i, pid in enumerate(order)}
    for th, lab, out in decisions:
        base = th.split("#")[0]
        lab = lab.split(":")[-1] if not lab.startswith("crash ") else lab
        x = ""
        m = re.match(r"^(pjoin|killtree|is_alive)\((\d+)\)$", lab)
        if m:
            lab, x = m.group(1), pname.get(m.group(2), "p?")
        lab = re.sub(r"^exitlock\d+\.", "exitlock.", lab)
        lab = re.sub(r"^task\.crash\(\d+\)$", "task.crash", lab)
        lab = re.sub(r"^tjoin\(mgr.*\)$", "tjoin", lab)
        if base == "ENV":
            m = re.match(r"^crash W(\d+) at ", lab)
            if m:
                ev.append(dict(w="E", a="crash", o="ok", x=pname.get(m.group(1), "p?"), t=0))
            continue
        if base.startswith("W") and base[1:].isdigit():
            role, w = "W", pname.get(base[1:], "p?")
        elif base == "mgr":
            role, w = "M", "M"
        elif base == "feeder":
            role, w = "F", "F"
        elif base.startswith("u"):
            role, w = "U", "U"
        else:
            continue
        if role == "U" and lab == "fut.cancel":
            c = cancels.get(base, [])
            if c:
                c0 = c.pop(0)
                if c0["res"] and c0["t"] not in already and c0["t"] in index:
                    already.add(c0["t"])
                    ev.append(dict(w="C", a="cancel", o="ok", x="", t=index[c0["t"]]))
            continue
        if lab == "spawn":
            nspawn += 1
            x = "p%d" % nspawn
        if lab not in KEY[role]:
            continue
        ev.append(dict(w=w, a=lab, o=out if out in ("ok", "timeout") else "ok", x=x, t=0))
    return ev


def tla_str(s):
    return '"%s"' % s


def write_instance(d, case, events):
    c = constants(case, events)
    os.makedirs(d, exist_ok=True)
    for f in ("LokyExecutor.tla", "Trace_LokyExecutor.tla"):
        shutil.copy(os.path.join(tlc.SPECS, f), d)
    recs = ",\n  ".join('[w |-> "%s", a |-> "%s", o |-> "%s", x |-> "%s", t |-> %d]' % (e["w"], e["a"], e["o"], e["x"], e.get("t", 0)) for e in events)
    kinds = ", ".join('"%s"' % k for k in c["kinds"])
    with open(os.path.join(d, "TraceLEData.tla"), "w") as fh:
        fh.write("---- MODULE TraceLEData ----\nEXTENDS Sequences\nTrace == <<\n  %s\n>>\nTraceKind == <<%s>>\n====\n" % (recs, kinds))
    lines = ["SPECIFICATION TraceSpec", "CONSTANTS", "  Pids = {%s}" % ", ".join('"%s"' % p for p in c["pids"]), "  MaxW = %d" % c["maxw"],
             "  K = %d" % len(c["kinds"]), "  Kind <- TraceKind", "  QSize = %d" % c["qsize"], "  MaxLeak = 0", "  MaxCrash = %d" % c["maxcrash"],
             "  MaxTimeout = %d" % c["maxtimeout"], "  MaxCancel = %d" % c["maxcancel"], "  HasTimeout = %s" % ("TRUE" if c["hastimeout"] else "FALSE"),
             '  FinalOps = {"%s"}' % c["fop"], "  InitFails = {}"]
    lines += ["  %s = %s" % kv for kv in c["switches"].items()]
    lines += ["CONSTRAINT Track", "INVARIANT NotAccepted", "POSTCONDITION Report", "CHECK_DEADLOCK FALSE"]
    with open(os.path.join(d, "trace.cfg"), "w") as fh:
        fh.write("\n".join(lines) + "\n")
    return c


def validate_one(d, case, out, timeout=600):
    events = project(out["decisions"], out["trace"], case["scn"])
    c = write_instance(d, case, events)
    try:
        res = tlc.check(d, "Trace_LokyExecutor", "trace.cfg", workers=1, timeout=timeout, coverage=False, heap="3g")
    except tlc.TLCError as ex:
        return dict(ok=None, err=str(ex)[-1500:], n=len(events))
    m = re.search(r'<<"MATCHED", (\d+), (\d+)>>', res.out)
    matched = int(m.group(1)) if m else None
    if res.violation and res.violation[1] == "NotAccepted":
        return dict(ok=True, n=len(events), states=res.distinct, constants=c)
    if res.violation:
        return dict(ok=None, err="unexpected TLC result %s" % (res.violation,), n=len(events))
    nxt = events[matched] if matched is not None and matched < len(events) else None
    return dict(ok=False, n=len(events), matched=matched, next=nxt, before=events[max(0, (matched or 0) - 6):matched], states=res.distinct,
                constants=c)


def validate(ctx, cases, outs, tag="tr", limit=None):
    """returns list of (case, out, result) for the supported cases"""
    todo = [(c, o) for c, o in zip(cases, outs) if o.get("decisions") and supported(c) and o.get("end") not in ("budget", "error")]
    if limit:
        todo = todo[:limit]
    base = os.path.join(ctx.work, "trace_%s" % tag)

    def one(k):
        d = os.path.join(base, "t%d" % k)
        r = validate_one(d, todo[k][0], todo[k][1])
        if r.get("ok"):
            shutil.rmtree(d, ignore_errors=True)
        return r
    with cf.ThreadPoolExecutor(16) as ex:
        res = list(ex.map(one, range(len(todo))))
    return [(c, o, r) for (c, o), r in zip(todo, res)]
