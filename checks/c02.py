"""C02 - executor protocol property, decided on E-SIM executions of the real code by the TLA+ monitor Mon_Exec[C02]."""
import os, sys
sys.path.insert(0, os.path.dirname(os.path.dirname(os.path.abspath(__file__))))
from vlib import runner, tlc
from checks import exec_common, exec_findings, c02_real


def run(ctx):
    tlc.stage(ctx.work)
    c02_real.run(ctx)
    exec_common.run_property(ctx, "C02", ['crash', 'crash_shutdown', 'init', 'respawn_crash', 'resize_grow_crash'], 300, 3000, classify=exec_findings.classify)


if __name__ == "__main__":
    sys.exit(runner.main("C02", run))
