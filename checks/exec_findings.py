"""Signatures of the known genuine defects of the pinned tree, as predicates over facts about a failing execution
(see DESIGN.md section 11 and known_findings.json).  `classify` returns {"defect": id} when the failing execution
matches exactly one of these windows; anything else is reported as a new violation."""


def classify(why, f, c, o):
    died = " ".join(f.get("exc", []))
    blocked = f["blocked"]
    ops = f["ops"]
    hang = bool(o.get("pending")) or any(b.startswith("u") for b in blocked)
    mgr_wait = any(b.startswith("mgr@wait") for b in blocked)
    # D1: shutdown(wait=False) nulls the executor's references; a later worker exit with undispatched work makes the
    #     manager thread die with TypeError in process_result_item
    if "mgr:TypeError" in died and "context manager" in died and "shutdown:nowait" in ops:
        return {"defect": "D1"}
    # D2: executor garbage collected with work pending + all workers left by idle timeout -> nobody respawns
    if o.get("pending") and "del" in ops and f["clean_exits"] > 0 and mgr_wait and not f["crashes"]:
        return {"defect": "D2"}
    # D12: a cancelled pending future makes set_exception raise InvalidStateError in terminate_broken / kill path
    if "mgr:InvalidStateError" in died:
        return {"defect": "D12"}
    # D13: terminate_broken iterates pending_work_items while the feeder error path pops from it
    if "mgr:RuntimeError" in died and "changed size during iteration" in died:
        return {"defect": "D13"}
    # D23: the reusable executor's call queue has 2 * cpu_count() + 1 slots whatever max_workers is: with more workers
    #      than slots, the tasks beyond the queue capacity are not dispatched to idle workers until a result comes back
    cpus = c["scn"]["exec"].get("cpus")
    if cpus and why.startswith("C08: fewer than max_workers long tasks run") and c["scn"]["exec"].get("kind") == "reusable":
        probes = [op[1] for u in c["scn"]["users"].values() for op in u if op[0] == "sat_probe"]
        if probes and min(probes) > 2 * cpus + 1:
            return {"defect": "D23"}
    crash_at = f.get("crash_at", [])
    # D7: worker dies after writing only part of a result message: the manager blocks in recv() forever
    if hang and "rq.w.send2" in crash_at and any(b.startswith("mgr@rq.r.recv") for b in blocked):
        return {"defect": "D7"}
    # D14: worker dies inside its idle-timeout path while holding the processes management lock
    if hang and "mgmt.rel" in crash_at and any("@mgmt.acq" in b for b in blocked):
        return {"defect": "D14"}
    # (D15 -- death right after the exit announcement, holding the result-queue write lock -- is fixed: no signature)
    # D6: a done-callback that submits (it runs in the manager thread and needs the submit/resize lock) while a caller of
    #     get_reusable_executor holds that lock and waits for something only the manager thread can do
    if any(b.startswith("mgr@exlock.acq") for b in blocked) and "reuse" in ops and "callback_submit" in ops:
        return {"defect": "D6"}
    # D19: _resize spawns workers outside the processes management lock: a new worker can announce an idle-timeout exit
    #      before it is registered; the manager cannot complete the handshake, the worker leaves after the 30 s grace
    #      period and its sentinel breaks the pool -- a broken pool although no process died abruptly
    if "reuse" in ops and f["timeout"] and not f["crashes"] and "shutdown:kill" not in ops and not any("kill_workers" in str(op) for u in c["scn"]["users"].values() for op in u) \
            and any((e["ev"] == "die" and e.get("how") == "killed") or (e["ev"] == "reuse_ret" and e.get("broken"))
                    or "BrokenProcessPool" in (e.get("mro") or []) for e in o["trace"]) \
            and not any(op[0] == "submit" and op[2] in ("crash", "unloadable_arg", "unloadable_result") for u in c["scn"]["users"].values() for op in u):
        return {"defect": "D19"}
    # D4: final liveness poll of _resize on a stale snapshot
    if f.get("end") in ("livelock", "diverges") and "reuse" in ops and any(("@is_alive" in b or b.endswith("@sleep")) and b.startswith("u") for b in blocked):
        return {"defect": "D4"}
    # D18: explicit shutdown(wait=False) of the reusable executor racing with a resize by another thread: _resize spawns
    #      workers on an executor whose manager is already in its final join
    if hang and "reuse" in ops and any(op.startswith("shutdown") for op in ops) and len(c["scn"]["users"]) > 1 \
            and any(b.startswith("mgr@pjoin") or b.startswith("mgr@wait") for b in blocked) and not f["crashes"]:
        return {"defect": "D18"}
    # D17: the last pending work item is a cancelled one: it is dropped without any event and the manager goes back to sleep
    #      although a shutdown / interpreter exit is waiting for it
    if hang and "cancel" in ops and mgr_wait and not f["crashes"] and "del" not in ops and not o.get("pending") \
            and any("@tjoin(mgr)" in b for b in blocked):
        return {"defect": "D17"}
    # (D16 / D22 -- abrupt death around a graceful shutdown, manager stuck in its final join -- are fixed: no signature)
    # D11: a task raising an exception that cannot be pickled takes its worker down (exit status 1): pool broken
    if "unpicklable_exc" in f["kinds"] and not f["crashes"] and any(
            e["ev"] == "die" and e.get("how") == "exit" and e.get("code") == 1 for e in o["trace"]):
        return {"defect": "D11"}
    # D3: submit() wakes the manager before spawning: a worker spawned after the manager's sentinel snapshot that dies
    #     is never noticed
    if hang and f["crashes"] and mgr_wait and not died:
        return {"defect": "D3"}
    return {}
