---- MODULE MC_Pickling ----
EXTENDS Pickling
====
