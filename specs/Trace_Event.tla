---------------------------- MODULE Trace_Event ----------------------------
(* Code -> spec for the Event clauses of C14: the operations the real Event methods performed on the condition's lock and
   on the flag semaphore (engine/sim/cond_sim.py, S.ops, projected by dropping the Condition's internal semaphores), and
   the value each call returned, must be a behaviour of Event.tla; its Notify and Wake steps are not logged and are taken
   silently.  An event is a record [t, a, o]: thread, operation ("lock.acq" | "lock.rel" | "flag.try" | "flag.rel" | "ret"),
   outcome ("ok" | "fail" | "True" | "False").                                                                        *)
EXTENDS Event, TraceEVData

VARIABLE l
tvars == <<vars, l>>
Ev == Trace[l]

Consume ==
  /\ l <= Len(Trace) /\ l' = l + 1
  /\ \/ Ev.a = "lock.acq" /\ LockAcq(Ev.t)
     \/ Ev.a = "lock.rel" /\ (LockRel(Ev.t) \/ Sleep(Ev.t))
     \/ Ev.a = "flag.try" /\ FlagTry(Ev.t) /\ last'[3] = Ev.o
     \/ Ev.a = "flag.rel" /\ FlagRel(Ev.t)
     \/ Ev.a = "ret" /\ Ret(Ev.t) /\ last'[3] = Ev.o
Silent == UNCHANGED l /\ \E t \in Threads : Notify(t) \/ Wake(t)

TraceInit == Init /\ l = 1 /\ TLCSet(1, 1)
TraceSpec == TraceInit /\ [][Consume \/ Silent]_tvars
Track == IF l > TLCGet(1) THEN TLCSet(1, l) ELSE TRUE
NotAccepted == l <= Len(Trace)
Report == PrintT(<<"MATCHED", TLCGet(1) - 1, Len(Trace)>>)
=============================================================================
