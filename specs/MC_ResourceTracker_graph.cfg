SPECIFICATION Spec
CONSTANTS
  Types <- MC_Types
  Lines <- MC_Lines_quick
  MaxCount = 2
  BadBytes = "BADBYTES"
  FailModes = {FALSE}
  StrictModes = {FALSE}
CONSTRAINT Bounded
VIEW View
INVARIANT RegIsBalance
CHECK_DEADLOCK FALSE
