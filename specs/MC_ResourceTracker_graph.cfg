SPECIFICATION Spec
CONSTANTS
  Types <- MC_Types
  Lines <- MC_Lines_quick
  MaxCount = 2
  BadBytes = "BADBYTES"
CONSTRAINT Bounded
VIEW View
INVARIANT RegIsBalance
CHECK_DEADLOCK FALSE
