SPECIFICATION Spec
CONSTANTS
  MaxLen = 2
  CloseReaderOnKill = FALSE
INVARIANT ReleasedMeansNothingOwned
CHECK_DEADLOCK FALSE
