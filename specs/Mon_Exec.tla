---------------------------- MODULE Mon_Exec ----------------------------
(* Property monitors for the executor protocol (C01-C08, parts of C09/C10/C18): ONE total state machine over
   API-level observation traces of executions of the real loky code (E-SIM or E-REAL).  Nothing here comes from a
   hook inside loky: events are logged by the driver (API calls and their returns, done-callbacks registered at
   submit time), by the task bodies (start/finish) and by the modelled/real environment (spawn/die of processes),
   plus one `end` event describing the quiescent end state.

   CONSTANT Prop selects the property being judged: only its clauses can turn `ok` FALSE (so that one property's
   known finding does not mask another property's violation on the same trace); `why` names the failing clause.

   Event fields (all present in every event, defaults when not applicable):
     ev, t (task id), u (user), pid, kind, outcome, bpp (exception is-a BrokenProcessPool), twe, shut (is
     ShutdownExecutorError), etype, good (value is the task's own), cause (has a _RemoteTraceback cause), res, wait,
     kill, how, code, n, same, eid, oldeid, maxw, nproc, pending, blockedusers, blocked, liveprocs, unreaped, died   *)
EXTENDS Naturals, Sequences, FiniteSets, TLC, Json, IOUtils

CONSTANT Prop
Traces == JsonDeserialize(IOEnv.TRACE_FILE)

VARIABLES tid, l, ok, why, failedAt,
          kindOf,      \* task -> kind (function built as tasks are submitted)
          started,     \* task -> number of start events
          finished,    \* set of tasks with a finish event
          resolved,    \* task -> outcome
          cancelled,   \* tasks for which cancel() returned TRUE
          cancelling,  \* tasks with a cancel() call in progress
          running,     \* tasks started and not finished (by pid: set of <<t, pid>>)
          live,        \* pids spawned and not dead
          crashedSettled, \* an abrupt death had happened when the driver last observed the pool at rest
          crashed,     \* an abrupt death (not loky's clean handshake) has happened
          brokenSeen,  \* a future was resolved with / a submit was rejected with BrokenProcessPool
          shutdownAt,  \* "none" | "graceful" | "kill" : a shutdown call has begun
          shutRet,     \* a shutdown(wait=True) call has returned
          exited,      \* interpreter exit was requested
          deleted,     \* the executor reference was dropped
          timeouts,    \* number of clean worker exits (idle timeout / sentinel)
          maxw,        \* largest max_workers in force
          hasTmo,      \* the executor has an idle timeout
          multi,       \* several user threads call the API
          inCalls,     \* get_reusable_executor calls in progress: user -> requested max_workers
          tmoInCall,   \* idle-timeout exits since the current get_reusable_executor call began
          liveAtCall,  \* workers alive when the current get_reusable_executor call began
          subAfterShut \* tasks accepted after a shutdown began (must not happen)
vars == <<tid, l, ok, why, failedAt, kindOf, started, finished, resolved, cancelled, cancelling, running, live, crashed, crashedSettled, brokenSeen,
          shutdownAt, shutRet, exited, deleted, timeouts, maxw, hasTmo, multi, inCalls, tmoInCall, liveAtCall, subAfterShut>>

Init == /\ tid \in 1..Len(Traces) /\ l = 1 /\ ok = TRUE /\ why = "none" /\ failedAt = 0
        /\ kindOf = <<>> /\ started = <<>> /\ finished = {} /\ resolved = <<>> /\ cancelled = {} /\ cancelling = {} /\ running = {}
        /\ live = {} /\ crashed = FALSE /\ crashedSettled = FALSE /\ brokenSeen = FALSE /\ shutdownAt = "none" /\ shutRet = FALSE
        /\ exited = FALSE /\ deleted = FALSE /\ timeouts = 0 /\ maxw = 0 /\ hasTmo = FALSE /\ multi = FALSE /\ inCalls = <<>> /\ tmoInCall = 0 /\ liveAtCall = {} /\ subAfterShut = {}

Ev == Traces[tid][l]
Get(f, k, d) == IF k \in DOMAIN f THEN f[k] ELSE d
Put(f, k, v) == [x \in DOMAIN f \cup {k} |-> IF x = k THEN v ELSE f[x]]
Fine == UNCHANGED <<ok, why, failedAt>>
\* first failing clause wins: a list of <<property, condition-that-is-a-violation, message>>
Check(cs) == LET bad == {i \in 1..Len(cs) : cs[i][1] = Prop /\ cs[i][2]} IN
             IF bad = {} THEN Fine
             ELSE LET i == CHOOSE x \in bad : \A y \in bad : x <= y IN ok' = FALSE /\ why' = cs[i][3] /\ failedAt' = l

TaskFailKinds == {"raise", "sysexit", "kbint", "unpicklable_arg", "oserror_arg", "too_large", "unpicklable_result", "unpicklable_exc"}
\* kinds whose failure legitimately breaks the pool (the property excludes them from containment)
BreakingKinds == {"crash", "unloadable_arg", "unloadable_result"}
Bound == LET S == {inCalls[x] : x \in DOMAIN inCalls} \cup {maxw} IN CHOOSE m \in S : \A y \in S : y <= m
Disturbed == crashed \/ (\E t \in DOMAIN kindOf : kindOf[t] \in BreakingKinds)
ExpectedType(k) == CASE k = "raise" -> "ValueError" [] k = "sysexit" -> "SystemExit" [] k = "kbint" -> "KeyboardInterrupt"
                     [] k = "unpicklable_arg" -> "PicklingError" [] k = "oserror_arg" -> "PicklingError" [] k = "too_large" -> "RuntimeError"
                     [] OTHER -> "any"      \* unpicklable result / exception: some exception, but only for this future

State == <<kindOf, started, finished, resolved, cancelled, cancelling, running, live, crashed, crashedSettled, brokenSeen, shutdownAt, shutRet,
           exited, deleted, timeouts, maxw, hasTmo, multi, inCalls, tmoInCall, liveAtCall, subAfterShut>>
\* after the first failing clause the rest of the trace is skipped; the verdict is printed once per trace
Skip == /\ ~ok /\ l <= Len(Traces[tid]) /\ l' = l + 1 /\ tid' = tid /\ UNCHANGED <<ok, why, failedAt, State>>
Report == /\ l = Len(Traces[tid]) + 1 /\ l' = l + 1 /\ tid' = tid /\ UNCHANGED <<ok, why, failedAt, State>>
          /\ PrintT(ToJson([verdict |-> tid, ok |-> ok, why |-> why, at |-> failedAt]))
Step ==
  /\ ok /\ l <= Len(Traces[tid]) /\ l' = l + 1 /\ tid' = tid
  /\ LET e == Ev IN
     CASE e.ev = "cfg" ->
            /\ maxw' = e.maxw /\ hasTmo' = e.wait /\ multi' = e.kill /\ crashed' = e.res        \* res: the scenario contains a failing initializer (breaks the pool)
            /\ UNCHANGED <<kindOf, started, finished, resolved, cancelled, cancelling, running, live, crashedSettled, brokenSeen, shutdownAt, shutRet, exited, deleted, timeouts, inCalls, tmoInCall, liveAtCall, subAfterShut>> /\ Fine
       [] e.ev = "submit" ->
            /\ kindOf' = Put(kindOf, e.t, e.kind)
            /\ subAfterShut' = IF shutdownAt # "none" \/ exited THEN subAfterShut \cup {e.t} ELSE subAfterShut
            /\ UNCHANGED <<started, finished, resolved, cancelled, cancelling, running, live, crashed, crashedSettled, brokenSeen, shutdownAt, shutRet, exited, deleted, timeouts, maxw, hasTmo, multi, inCalls, tmoInCall, liveAtCall>>
            /\ Check(<< <<"C05", shutRet, "C05: submit() was accepted after shutdown() had returned">>,
                        <<"C06", shutRet, "C06: submit() was accepted after shutdown(kill_workers=True) had returned">>,
                        <<"C02", brokenSeen, "C02: submit() was accepted after the pool had failed futures with BrokenProcessPool">>,
                        <<"C02", crashedSettled /\ e.kind = "probe", "C02: submit() was accepted although a worker had died abruptly and the pool had settled">>,
                        <<"C18", crashedSettled /\ e.kind = "probe" /\ timeouts = 0, "C18: an initializer failure did not break the pool">> >>)
       [] e.ev = "submit_rejected" ->
            /\ brokenSeen' = (brokenSeen \/ e.bpp)
            /\ UNCHANGED <<kindOf, started, finished, resolved, cancelled, cancelling, running, live, crashed, crashedSettled, shutdownAt, shutRet, exited, deleted, timeouts, maxw, hasTmo, multi, inCalls, tmoInCall, liveAtCall, subAfterShut>>
            /\ Check(<< <<"C04", e.bpp /\ ~Disturbed, "C04: submit() raised BrokenProcessPool although no worker died: a task-level failure broke the pool">>,
                        <<"C07", e.bpp /\ ~Disturbed, "C07: submit() raised BrokenProcessPool in a run with idle timeouts only">>,
                        <<"C05", e.bpp /\ ~Disturbed, "C05: the pool was flagged broken during a graceful shutdown">>,
                        <<"C05", shutRet /\ ~e.shut /\ ~e.bpp /\ ~exited, "C05: submit() after shutdown did not raise ShutdownExecutorError">>,
                        <<"C02", brokenSeen /\ ~e.bpp, "C02: submit() on a broken pool raised something else than BrokenProcessPool">>,
                        <<"C01", ~e.bpp /\ ~e.shut /\ shutdownAt = "none" /\ ~exited /\ ~brokenSeen, "C01: submit() on a healthy executor raised">> >>)
       [] e.ev = "start" ->
            /\ started' = Put(started, e.t, Get(started, e.t, 0) + 1)
            /\ running' = running \cup {<<e.t, e.pid>>}
            /\ UNCHANGED <<kindOf, finished, resolved, cancelled, cancelling, live, crashed, crashedSettled, brokenSeen, shutdownAt, shutRet, exited, deleted, timeouts, maxw, hasTmo, multi, inCalls, tmoInCall, liveAtCall, subAfterShut>>
            /\ Check(<< <<"C03", Get(started, e.t, 0) >= 1, "C03: a task body was executed twice">>,
                        <<"C07", Get(started, e.t, 0) >= 1, "C07: a task was duplicated">>,
                        <<"C03", e.t \in cancelled, "C03: a task ran although cancel() had returned True">>,
                        <<"C08", maxw > 0 /\ Cardinality(running) + 1 > Bound, "C08: more than max_workers tasks execute concurrently">> >>)
       [] e.ev = "finish" ->
            /\ finished' = finished \cup {e.t}
            /\ running' = running \ {<<e.t, e.pid>>}
            /\ UNCHANGED <<kindOf, started, resolved, cancelled, cancelling, live, crashed, crashedSettled, brokenSeen, shutdownAt, shutRet, exited, deleted, timeouts, maxw, hasTmo, multi, inCalls, tmoInCall, liveAtCall, subAfterShut>> /\ Fine
       [] e.ev = "cancel_call" ->
            /\ cancelling' = cancelling \cup {e.t}
            /\ UNCHANGED <<kindOf, started, finished, resolved, cancelled, running, live, crashed, crashedSettled, brokenSeen, shutdownAt, shutRet, exited, deleted, timeouts, maxw, hasTmo, multi, inCalls, tmoInCall, liveAtCall, subAfterShut>> /\ Fine
       [] e.ev = "cancel" ->
            /\ cancelled' = IF e.res \/ Get(resolved, e.t, "") = "cancelled" THEN cancelled \cup {e.t} ELSE cancelled \ {e.t}
            /\ UNCHANGED <<kindOf, started, finished, resolved, cancelling, running, live, crashed, crashedSettled, brokenSeen, shutdownAt, shutRet, exited, deleted, timeouts, maxw, hasTmo, multi, inCalls, tmoInCall, liveAtCall, subAfterShut>>
            /\ Check(<< <<"C03", e.res /\ Get(started, e.t, 0) >= 1, "C03: cancel() returned True for a task that had already started">> >>)
       [] e.ev = "resolve" ->
            /\ resolved' = Put(resolved, e.t, e.outcome)
            /\ brokenSeen' = (brokenSeen \/ (e.outcome = "exception" /\ e.bpp))
            /\ UNCHANGED <<kindOf, started, finished, cancelled, cancelling, running, live, crashed, crashedSettled, shutdownAt, shutRet, exited, deleted, timeouts, maxw, hasTmo, multi, inCalls, tmoInCall, liveAtCall, subAfterShut>>
            /\ LET k == Get(kindOf, e.t, "unknown")
                   isBpp == e.outcome = "exception" /\ e.bpp
                   isShut == e.outcome = "exception" /\ e.shut
                   taskExc == e.outcome = "exception" /\ ~e.bpp /\ ~e.shut
               IN Check(<<
                 <<"C03", e.t \in DOMAIN resolved, "C03: a future was resolved twice">>,
                 <<"C03", e.outcome = "result" /\ ~e.good, "C03: a future holds a value that is not fn(*args) of its own submission">>,
                 <<"C03", e.outcome = "result" /\ e.t \notin finished, "C03: a future holds a result although its task body never completed">>,
                 <<"C02", e.outcome = "result" /\ (~e.good \/ e.t \notin finished), "C02: a future was given a fabricated value">>,
                 <<"C03", e.outcome = "cancelled" /\ e.t \notin cancelled \cup cancelling, "C03: a future was cancelled although cancel() never returned True">>,
                 <<"C04", isBpp /\ ~Disturbed, "C04: a future failed with BrokenProcessPool although no worker died: a task-level failure was not contained">>,
                 <<"C07", isBpp /\ ~Disturbed, "C07: the pool was marked broken in a run with idle timeouts only">>,
                 <<"C05", isBpp /\ ~Disturbed, "C05: the pool was flagged broken during a graceful shutdown">>,
                 <<"C04", ~Disturbed /\ k \in TaskFailKinds /\ e.outcome = "result", "C04: a failing task's future holds a result">>,
                 <<"C04", ~Disturbed /\ k \notin TaskFailKinds /\ k # "unknown" /\ taskExc, "C04: a sibling of a failing task did not get its own outcome">>,
                 <<"C04", ~Disturbed /\ taskExc /\ ExpectedType(k) # "any" /\ e.etype # ExpectedType(k), "C04: the future's exception is not the task's own exception type">>,
                 <<"C04", ~Disturbed /\ taskExc /\ k \in {"raise", "sysexit", "kbint", "unpicklable_arg", "oserror_arg", "too_large"} /\ ~e.cause, "C04: the remote traceback is not attached as __cause__">>,
                 <<"C05", isShut /\ shutdownAt # "kill", "C05: a submitted task was dropped with ShutdownExecutorError by a graceful shutdown">>,
                 <<"C06", isShut /\ shutdownAt # "kill", "C06: ShutdownExecutorError without kill_workers">>,
                 <<"C02", brokenSeen /\ taskExc /\ e.t \notin finished /\ k \notin {"unpicklable_arg", "oserror_arg", "too_large"}, "C02: a future failed with a task-level error although its task never ran">>
               >>)
       [] e.ev = "spawn" ->
            /\ live' = live \cup {e.pid}
            /\ UNCHANGED <<kindOf, started, finished, resolved, cancelled, cancelling, running, crashed, crashedSettled, brokenSeen, shutdownAt, shutRet, exited, deleted, timeouts, maxw, hasTmo, multi, inCalls, tmoInCall, liveAtCall, subAfterShut>>
            /\ Fine
       [] e.ev = "reg" ->
            /\ UNCHANGED <<kindOf, started, finished, resolved, cancelled, cancelling, running, live, crashed, crashedSettled, brokenSeen, shutdownAt, shutRet, exited, deleted, timeouts, maxw, hasTmo, multi, inCalls, tmoInCall, liveAtCall, subAfterShut>>
            /\ Check(<< <<"C08", maxw > 0 /\ e.n > Bound, "C08: more than max_workers workers are registered">> >>)
       [] e.ev = "die" ->
            /\ live' = live \ {e.pid}
            /\ running' = {x \in running : x[2] # e.pid}
            /\ crashed' = (crashed \/ (e.how = "crash" /\ ~e.late))
            /\ timeouts' = IF e.how = "exit" THEN timeouts + 1 ELSE timeouts
            /\ tmoInCall' = IF e.how = "exit" /\ e.reason = "timeout" THEN tmoInCall + 1 ELSE tmoInCall
            /\ UNCHANGED <<kindOf, started, finished, resolved, cancelled, cancelling, crashedSettled, brokenSeen, shutdownAt, shutRet, exited, deleted, maxw, hasTmo, multi, inCalls, liveAtCall, subAfterShut>>
            /\ Check(<< <<"C05", e.how = "exit" /\ e.code # 0 /\ ~Disturbed, "C05: a worker left with a non-zero exit status during a graceful run">>,
                        <<"C07", e.how = "killed" /\ ~Disturbed /\ shutdownAt # "kill", "C07: a worker was killed in a run with idle timeouts only (timeout exit reported as a crash)">>,
                        <<"C05", e.how = "killed" /\ ~Disturbed /\ shutdownAt # "kill", "C05: a worker was killed during a graceful shutdown">>,
                        <<"C07", e.how = "exit" /\ (\E x \in running : x[2] = e.pid), "C07: a worker left while it was holding a task">> >>)
       [] e.ev = "shutdown_call" ->
            /\ shutdownAt' = IF e.kill THEN "kill" ELSE IF shutdownAt = "kill" THEN "kill" ELSE "graceful"
            /\ UNCHANGED <<kindOf, started, finished, resolved, cancelled, cancelling, running, live, crashed, crashedSettled, brokenSeen, shutRet, exited, deleted, timeouts, maxw, hasTmo, multi, inCalls, tmoInCall, liveAtCall, subAfterShut>> /\ Fine
       [] e.ev = "shutdown_ret" ->
            /\ shutRet' = (shutRet \/ e.wait)
            /\ UNCHANGED <<kindOf, started, finished, resolved, cancelled, cancelling, running, live, crashed, crashedSettled, brokenSeen, shutdownAt, exited, deleted, timeouts, maxw, hasTmo, multi, inCalls, tmoInCall, liveAtCall, subAfterShut>>
            /\ Check(<< <<"C05", e.wait /\ ~e.kill /\ live # {} /\ ~Disturbed, "C05: shutdown(wait=True) returned while workers are still alive">>,
                        <<"C06", e.wait /\ e.kill /\ live # {}, "C06: shutdown(kill_workers=True) returned while workers are still alive">>,
                        <<"C05", e.wait /\ ~e.kill /\ ~Disturbed /\ (\E t \in DOMAIN kindOf : t \notin DOMAIN resolved /\ t \notin subAfterShut),
                                 "C05: shutdown(wait=True) returned although a submitted task has not delivered its result">>,
                        <<"C06", e.wait /\ e.kill /\ (\E t \in DOMAIN kindOf : t \notin DOMAIN resolved), "C06: shutdown(kill_workers=True) returned and left a future unresolved">> >>)
       [] e.ev = "exit_call" ->
            /\ exited' = TRUE
            /\ UNCHANGED <<kindOf, started, finished, resolved, cancelled, cancelling, running, live, crashed, crashedSettled, brokenSeen, shutdownAt, shutRet, deleted, timeouts, maxw, hasTmo, multi, inCalls, tmoInCall, liveAtCall, subAfterShut>> /\ Fine
       [] e.ev = "del" ->
            /\ deleted' = TRUE
            /\ UNCHANGED <<kindOf, started, finished, resolved, cancelled, cancelling, running, live, crashed, crashedSettled, brokenSeen, shutdownAt, shutRet, exited, timeouts, maxw, hasTmo, multi, inCalls, tmoInCall, liveAtCall, subAfterShut>> /\ Fine
       [] e.ev = "reuse_call" ->
            /\ liveAtCall' = live /\ tmoInCall' = 0
            /\ inCalls' = Put(inCalls, e.u, e.n)             \* while a resize is in progress both sizes are in force
            /\ UNCHANGED <<kindOf, started, finished, resolved, cancelled, cancelling, running, live, crashed, crashedSettled, brokenSeen, shutdownAt, shutRet, exited, deleted, timeouts, maxw, hasTmo, multi, subAfterShut>> /\ Fine
       [] e.ev = "reuse_ret" ->
            /\ maxw' = e.n      \* a completed resize / replacement fixes the bound
            /\ inCalls' = [x \in DOMAIN inCalls \ {e.u} |-> inCalls[x]]
            /\ shutdownAt' = (IF e.same THEN shutdownAt ELSE "none")
            /\ shutRet' = (IF e.same THEN shutRet ELSE FALSE)
            /\ brokenSeen' = (IF e.same THEN brokenSeen ELSE FALSE)
            /\ UNCHANGED <<kindOf, started, finished, resolved, cancelled, cancelling, running, live, crashed, crashedSettled, exited, deleted, timeouts, hasTmo, multi, tmoInCall, liveAtCall, subAfterShut>>
            /\ Check(<< <<"C09", (e.broken \/ e.shutdown) /\ ~multi /\ ~crashed, "C09: get_reusable_executor returned an executor that is broken or shut down">>,
                        <<"C09", e.maxw # e.n /\ ~(multi /\ e.shutdown), "C09: the returned executor does not have the requested max_workers">>,
                        <<"C10", e.same /\ e.nbefore > 0 /\ e.nproc # e.n /\ ~hasTmo /\ ~multi /\ ~crashed, "C10: resize returned without the requested number of workers">>,
                        <<"C10", e.same /\ e.nproc > e.n /\ ~(multi /\ e.shutdown), "C10: resize returned with more workers than requested">>,
                        <<"C09", e.same /\ e.nproc > e.n /\ ~(multi /\ e.shutdown), "C09: the returned executor has more workers than requested">>,
                        <<"C10", e.same /\ ~hasTmo /\ ~multi /\ ~crashed /\ e.nbefore >= tmoInCall
                                 /\ e.kept < (IF e.nbefore - tmoInCall < e.n THEN e.nbefore - tmoInCall ELSE e.n),
                                 "C10: resize restarted worker processes it should have kept">>,
                        <<"C09", ~e.same /\ ~multi /\ e.oldalive > 0, "C09: a fresh executor was returned while workers of the previous instance are still alive (it was not completely shut down first)">>,
                        <<"C09", ~e.same /\ e.oldeid >= 0 /\ e.eid <= e.oldeid, "C09: a fresh executor does not have a strictly larger executor_id">>,
                        <<"C09", e.same /\ (e.oldbroken \/ e.oldshutdown), "C09: a broken or shut-down instance was reused">> >>)
       [] e.ev = "call_exc" ->
            \* an API call (get_reusable_executor, shutdown, interpreter exit hook, map) raised instead of returning
            /\ UNCHANGED <<kindOf, started, finished, resolved, cancelled, cancelling, running, live, crashed, crashedSettled, brokenSeen, shutdownAt, shutRet, exited, deleted, timeouts, maxw, hasTmo, multi, inCalls, tmoInCall, liveAtCall, subAfterShut>>
            /\ Check(<< <<"C09", e.kind = "reuse" /\ ~multi /\ ~e.warn, "C09: get_reusable_executor raised instead of returning an executor">>,
                        <<"C10", e.kind = "reuse" /\ ~multi /\ ~e.warn, "C10: the resize call raised instead of returning with the requested number of workers">>,
                        <<"C05", e.kind = "shutdown" /\ ~Disturbed, "C05: shutdown() raised during a graceful run">>,
                        <<"C06", e.kind = "shutdown", "C06: shutdown() raised">>,
                        <<"C01", e.kind \in {"shutdown", "exit"} /\ ~Disturbed, "C01: shutdown / the interpreter exit hook raised">> >>)
       [] e.ev = "settled" ->
            /\ crashedSettled' = crashed
            /\ UNCHANGED <<kindOf, started, finished, resolved, cancelled, cancelling, running, live, crashed, brokenSeen, shutdownAt, shutRet, exited, deleted, timeouts, maxw, hasTmo, multi, inCalls, tmoInCall, liveAtCall, subAfterShut>> /\ Fine
       [] e.ev = "timeouts_on" ->
            /\ hasTmo' = TRUE
            /\ UNCHANGED <<kindOf, started, finished, resolved, cancelled, cancelling, running, live, crashed, crashedSettled, brokenSeen, shutdownAt, shutRet, exited, deleted, timeouts, maxw, multi, inCalls, tmoInCall, liveAtCall, subAfterShut>> /\ Fine
       [] e.ev = "timeouts_off" ->
            /\ hasTmo' = FALSE
            /\ UNCHANGED <<kindOf, started, finished, resolved, cancelled, cancelling, running, live, crashed, crashedSettled, brokenSeen, shutdownAt, shutRet, exited, deleted, timeouts, maxw, multi, inCalls, tmoInCall, liveAtCall, subAfterShut>> /\ Fine
       [] e.ev = "map_result" ->
            /\ UNCHANGED <<kindOf, started, finished, resolved, cancelled, cancelling, running, live, crashed, crashedSettled, brokenSeen, shutdownAt, shutRet, exited, deleted, timeouts, maxw, hasTmo, multi, inCalls, tmoInCall, liveAtCall, subAfterShut>>
            /\ Check(<< <<"C03", ~e.good, "C03: map() did not yield list(map(fn, *iterables)) in order">> >>)
       [] e.ev = "sat_probe" ->
            /\ UNCHANGED <<kindOf, started, finished, resolved, cancelled, cancelling, running, live, crashed, crashedSettled, brokenSeen, shutdownAt, shutRet, exited, deleted, timeouts, maxw, hasTmo, multi, inCalls, tmoInCall, liveAtCall, subAfterShut>>
            /\ Check(<< <<"C08", Cardinality(running) < e.n, "C08: fewer than max_workers long tasks run although that many are pending on a healthy executor">> >>)
       [] e.ev = "end" ->
            /\ UNCHANGED <<kindOf, started, finished, resolved, cancelled, cancelling, running, live, crashed, crashedSettled, brokenSeen, shutdownAt, shutRet, exited, deleted, timeouts, maxw, hasTmo, multi, inCalls, tmoInCall, liveAtCall, subAfterShut>>
            /\ LET unresolved == {t \in DOMAIN kindOf : t \notin DOMAIN resolved}
                   closing == shutdownAt # "none" \/ exited \/ deleted \/ brokenSeen
               IN Check(<<
                 <<"C01", e.how # "quiescent", "C01: the execution never settles: an API call spins forever (livelock)">>,
                 <<"C01", unresolved # {}, "C01: a future never reaches a terminal state">>,
                 <<"C01", e.blockedusers # <<>>, "C01: an API call (shutdown / get_reusable_executor / interpreter exit) never returns">>,
                 <<"C02", crashed /\ unresolved # {}, "C02: a future is left pending after an abrupt worker death">>,
                 <<"C02", crashed /\ e.liveprocs # <<>>, "C02: workers are still alive after the pool broke">>,
                 <<"C02", crashed /\ e.unreaped # <<>>, "C02: dead workers were not reaped after the pool broke">>,
                 <<"C07", ~Disturbed /\ unresolved # {}, "C07: a task was lost around an idle-timeout exit">>,
                 <<"C10", unresolved # {} /\ ~crashed, "C10: a task submitted before a resize never completed">>,
                 <<"C10", e.how # "quiescent" \/ e.blockedusers # <<>>, "C10: a get_reusable_executor / resize call never returns">>,
                 <<"C09", (e.how # "quiescent" \/ e.blockedusers # <<>> \/ unresolved # {}) /\ ~crashed, "C09: a caller of get_reusable_executor did not obtain a working executor (call or task never completes)">>,
                 <<"C04", ~Disturbed /\ unresolved # {}, "C04: a task-level failure was not contained: other futures never get their outcome">>,
                 <<"C04", ~Disturbed /\ e.how # "quiescent", "C04: a task-level failure wedged the pool (the execution never settles)">>,
                 <<"C03", ~Disturbed /\ ~closing /\ unresolved # {}, "C03: a submitted task never delivered its result">>,
                 <<"C05", ~Disturbed /\ shutdownAt = "graceful" /\ unresolved # {}, "C05: graceful shutdown lost a submitted task">>,
                 <<"C05", ~Disturbed /\ closing /\ e.liveprocs # <<>>, "C05: workers are left behind after a graceful shutdown">>,
                 <<"C05", ~Disturbed /\ closing /\ e.mgmtalive, "C05: a management thread is left behind after a graceful shutdown">>,
                 <<"C06", shutdownAt = "kill" /\ unresolved # {}, "C06: a future silently disappeared in shutdown(kill_workers=True)">>,
                 <<"C06", shutdownAt = "kill" /\ e.liveprocs # <<>>, "C06: workers survive shutdown(kill_workers=True)">>,
                 <<"C06", shutdownAt = "kill" /\ e.unreaped # <<>>, "C06: killed workers were not reaped">>,
                 <<"C20", closing /\ (e.liveprocs # <<>> \/ e.unreaped # <<>> \/ e.mgmtalive), "C20: processes or threads are left behind by a completed lifecycle">>
               >>)
       [] OTHER ->
            /\ UNCHANGED <<kindOf, started, finished, resolved, cancelled, cancelling, running, live, crashed, crashedSettled, brokenSeen, shutdownAt, shutRet, exited, deleted, timeouts, maxw, hasTmo, multi, inCalls, tmoInCall, liveAtCall, subAfterShut>> /\ Fine

Spec == Init /\ [][Step \/ Skip \/ Report]_vars
=============================================================================
