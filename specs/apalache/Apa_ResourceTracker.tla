---------------------------- MODULE Apa_ResourceTracker ----------------------------
(* Unbounded counts for C11 with Apalache: the invariant  reg = bal  (the code's registry equals the property's balance) is
   inductive -- it holds initially and every step of ResourceTracker!Next preserves it from ANY state satisfying it, whatever the
   counts are (TLC explores counts up to MaxCount only).  Run:
     apalache-mc check --init=Init    --inv=IndInv --length=0 Apa_ResourceTracker.tla      (initiation)
     apalache-mc check --init=IndInit --inv=IndInv --length=1 Apa_ResourceTracker.tla      (consecution)           *)
EXTENDS Integers, Sequences, FiniteSets

Types == {"folder", "file", "semlock"}
BadBytes == "BADBYTES"
MaxCount == 1000000
FailModes == {FALSE, TRUE}
StrictModes == {FALSE, TRUE}
\* @type: Set(Seq(Str));
Lines == { <<"REGISTER", "a", "file">>, <<"UNREGISTER", "a", "file">>, <<"MAYBE_UNLINK", "a", "file">>,
           <<"REGISTER", "b", "c", "folder">>, <<"UNREGISTER", "b", "c", "folder">>, <<"MAYBE_UNLINK", "b", "c", "folder">>,
           <<"REGISTER", "a", "semlock">>, <<"MAYBE_UNLINK", "a", "semlock">>,
           <<"PROBE", "0", "noop">>, <<"REGISTER", "a", "bogus">>, <<"FROB", "a", "file">>, <<"REGISTER", "a">>, <<"GARBAGE">>,
           <<"">>, <<"BADBYTES", "a", "file">>, <<"REGISTER", "file">>, <<"MAYBE_UNLINK", "file">> }

VARIABLES
  \* @type: <<Str, Seq(Str)>> -> Int;
  reg,
  \* @type: Bool;
  alive,
  \* @type: <<Set(<<Str, Seq(Str)>>), Set(<<Str, Seq(Str)>>)>>;
  cleaned,
  \* @type: Bool;
  reported,
  \* @type: <<Str, Seq(Str)>> -> Int;
  bal,
  \* @type: Bool;
  fail,
  \* @type: Bool;
  strict,
  \* @type: Seq(Str);
  last

INSTANCE ResourceTracker

\* any state with arbitrary (unbounded) natural counts in which registry and balance agree
IndInv == /\ DOMAIN reg = Keys /\ DOMAIN bal = Keys
          /\ \A k \in Keys : reg[k] >= 0 /\ reg[k] = bal[k]
IndInit == /\ reg \in [Keys -> Nat] /\ bal = reg
           /\ alive \in BOOLEAN /\ reported \in BOOLEAN /\ fail \in BOOLEAN /\ strict \in BOOLEAN
           /\ cleaned = <<{}, {}>> /\ last = <<>>
\* sanity of the method (expected to FAIL from IndInit): counts are really unbounded in this check
SmallCounts == \A k \in Keys : reg[k] <= 5
=============================================================================
