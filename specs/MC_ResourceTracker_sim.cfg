SPECIFICATION Spec
CONSTANTS
  Types <- MC_Types
  Lines <- MC_Lines_thorough
  MaxCount = 3
  BadBytes = "BADBYTES"
  FailModes = {FALSE, TRUE}
  StrictModes = {FALSE, TRUE}
CONSTRAINT Bounded
VIEW View
INVARIANT RegIsBalance
PROPERTY DestroyedExactlyAtZero
PROPERTY NeverWhilePositiveNorAfterUnregister
PROPERTY SweepComplete
PROPERTY BadLinesAreInert
PROPERTY DeadIsSilent
CHECK_DEADLOCK FALSE
