SPECIFICATION Spec
CONSTANTS
  Procs = {"r", "a", "b"}
  MaxT = 2
  MaxOps = 6
  MaxRes = 2
  Confs <- MCConfs
INVARIANT SingleTracker
INVARIANT ImportsShareTracker
INVARIANT OneTrackerUnlessKilled
INVARIANT SweepOnlyAfterLast
INVARIANT NothingOutlives
PROPERTY SelfHeal
PROPERTY SignalsIgnored
CHECK_DEADLOCK FALSE
