SPECIFICATION Spec
CONSTANTS
  Waiters = {"a", "b", "c"}
  Timed = {"a", "b"}
  Notifiers = {"N", "M"}
  Kind <- K_c
  Reps = 1
VIEW View
INVARIANT NoInternalAssert
INVARIANT MutualExclusion
INVARIANT WaitReturnsHoldingLock
INVARIANT FalseOnlyAfterTimeout
INVARIANT NotifyAllWakesAll
INVARIANT NotifyAtMostOne
INVARIANT ReusableAfterBurst

CHECK_DEADLOCK FALSE
