---- MODULE MC_Event ----
EXTENDS Event
T3 == {"S", "W1", "W2"}
P_a == [t \in T3 |-> CASE t = "S" -> <<"set">> [] t = "W1" -> <<"wait">> [] OTHER -> <<"waitT">>]
T4 == {"S", "C", "W1", "I"}
P_b == [t \in T4 |-> CASE t = "S" -> <<"set">> [] t = "C" -> <<"clear">> [] t = "W1" -> <<"waitT", "waitT">> [] OTHER -> <<"is_set", "is_set">>]
T3c == {"S", "W1", "W2"}
P_c == [t \in T3c |-> CASE t = "S" -> <<"set", "clear", "set">> [] t = "W1" -> <<"waitT">> [] OTHER -> <<"wait">>]
T4d == {"S", "C", "I", "J"}
P_d == [t \in T4d |-> CASE t = "S" -> <<"set">> [] t = "C" -> <<"clear">> [] t = "I" -> <<"is_set", "waitT">> [] OTHER -> <<"waitT", "is_set">>]
====
