---------------------------- MODULE ResourceTracker ----------------------------
(* C11.  The resource tracker process of loky.backend.resource_tracker.main(fd): a line protocol and a
   reference-counting registry.

   A request line is modelled as the tuple of its ':'-separated fields (after strip + ascii decoding); the
   parsing rule of the code -- command = first field, resource type = last field, name = the fields in
   between, re-joined -- is part of the model, so names containing ':' , truncated lines and empty lines are
   predicted rather than special-cased.  A field equal to BadBytes stands for bytes that do not decode.

   `reg` is the code's registry (transcribed: KeyError paths included); `bal` is a ghost variable that
   follow the *property's* wording ("registrations minus maybe_unlinks since the last unregister").  TLC checks the
   property over the code-shaped transitions; the conformance harness replays every transition of the state
   graph into the real main(fd) and compares the observable outputs (`cleaned`, `reported`).                 *)
EXTENDS Naturals, Sequences, FiniteSets, TLC

CONSTANTS
  \* @type: Set(Str);
  Types,       \* resource types known to the tracker: {"folder", "file", "semlock"}
  \* @type: Set(Seq(Str));
  Lines,       \* the request alphabet: a finite set of field tuples
  \* @type: Int;
  MaxCount,    \* state constraint: counts explored up to this value
  \* @type: Str;
  BadBytes,    \* marker field for undecodable bytes
  \* @type: Set(Bool);
  FailModes,   \* subset of BOOLEAN: whether, in a run, every destruction attempt fails (the resources were removed
               \* behind the tracker's back: unlink raises); a failed destruction is reported as a warning and
               \* otherwise changes nothing
  \* @type: Set(Bool);
  StrictModes  \* subset of BOOLEAN: whether the tracker runs with warnings turned into errors (-W error is inherited from
               \* the parent interpreter): the warning of a failed destruction then surfaces as a report of that request --
               \* and changes nothing else

VARIABLES
  \* @type: <<Str, Seq(Str)>> -> Int;
  reg,         \* [<<type, name>> -> Nat], 0 = not in the registry
  \* @type: Bool;
  alive,       \* the tracker is still consuming requests
  \* @type: <<Set(<<Str, Seq(Str)>>), Set(<<Str, Seq(Str)>>)>>;
  cleaned,     \* output of the last step: <<set cleaned in phase 1, set cleaned in phase 2>> of <<type, name>>
  \* @type: Bool;
  reported,    \* output of the last step: the line was reported as an error and skipped
  \* @type: <<Str, Seq(Str)>> -> Int;
  bal,         \* ghost (property wording): registrations minus maybe_unlinks since the last unregister;
               \* 0 = not counted (never registered, destroyed, or unregistered)
  \* @type: Bool;
  fail,        \* configuration of the run, see FailModes
  \* @type: Bool;
  strict,      \* configuration of the run, see StrictModes
  \* @type: Seq(Str);
  last         \* history: the line consumed by the last step (<<>> initially, <<"EOF">> for the sweep); hidden by View
vars == <<reg, alive, cleaned, reported, bal, fail, strict, last>>
View == <<reg, alive, cleaned, reported, bal, fail, strict>>

\* @type: (Seq(Str)) => Str;
Cmd(ln)   == ln[1]
\* @type: (Seq(Str)) => Str;
RType(ln) == ln[Len(ln)]
\* @type: (Seq(Str)) => Seq(Str);
Name(ln)  == IF Len(ln) < 3 THEN <<"">> ELSE SubSeq(ln, 2, Len(ln) - 1)   \* ":".join(fields[1:-1]); [] and [""] both give ""
\* @type: (Seq(Str)) => Bool;
Decodable(ln) == \A i \in DOMAIN ln : ln[i] # BadBytes
Names == {Name(ln) : ln \in Lines}
Keys  == Types \X Names
\* @type: <<Set(<<Str, Seq(Str)>>), Set(<<Str, Seq(Str)>>)>>;
None2 == <<{}, {}>>

Init == /\ reg = [k \in Keys |-> 0] /\ alive = TRUE /\ cleaned = None2 /\ reported = FALSE
        /\ bal = [k \in Keys |-> 0] /\ last = <<>> /\ fail \in FailModes /\ strict \in StrictModes

-----------------------------------------------------------------------------
(* ghost update, in the property's words *)
GhostRequest(ln) ==
  IF ~Decodable(ln) \/ Cmd(ln) = "PROBE" \/ RType(ln) \notin Types THEN UNCHANGED bal
  ELSE LET k == <<RType(ln), Name(ln)>> IN
    CASE Cmd(ln) = "REGISTER"                  -> bal' = [bal EXCEPT ![k] = @ + 1]
      [] Cmd(ln) = "UNREGISTER" /\ bal[k] > 0   -> bal' = [bal EXCEPT ![k] = 0]
      [] Cmd(ln) = "MAYBE_UNLINK" /\ bal[k] > 0 -> bal' = [bal EXCEPT ![k] = @ - 1]
      [] OTHER -> UNCHANGED bal                  \* request on a name that is not counted, unknown command

(* the code: one iteration of the `while True` loop of main() *)
Report == /\ reported' = TRUE /\ cleaned' = None2 /\ UNCHANGED reg
Consume(ln) ==
  /\ alive /\ alive' = TRUE /\ last' = ln /\ UNCHANGED <<fail, strict>>
  /\ GhostRequest(ln)
  /\ IF ~Decodable(ln) THEN Report                                   \* UnicodeDecodeError
     ELSE IF Cmd(ln) = "PROBE" THEN /\ reported' = FALSE /\ cleaned' = None2 /\ UNCHANGED reg
     ELSE IF RType(ln) \notin Types THEN Report                      \* ValueError: unknown resource type
     ELSE LET k == <<RType(ln), Name(ln)>> IN
       CASE Cmd(ln) = "REGISTER" ->
              /\ reg' = [reg EXCEPT ![k] = @ + 1] /\ reported' = FALSE /\ cleaned' = None2
         [] Cmd(ln) = "UNREGISTER" ->
              IF reg[k] = 0 THEN Report                              \* KeyError on del
              ELSE /\ reg' = [reg EXCEPT ![k] = 0] /\ reported' = FALSE /\ cleaned' = None2
         [] Cmd(ln) = "MAYBE_UNLINK" ->
              IF reg[k] = 0 THEN Report                              \* KeyError on -= 1
              ELSE /\ reg' = [reg EXCEPT ![k] = @ - 1]
                   /\ cleaned' = IF reg[k] = 1 THEN <<{k}, {}>> ELSE None2
                   \* the name is forgotten BEFORE the destruction is attempted: a failing attempt, even one whose
                   \* warning is an error, leaves the registry as a successful one does
                   /\ reported' = (reg[k] = 1 /\ fail /\ strict)
         [] OTHER -> Report                                          \* RuntimeError: unrecognized command

(* EOF: every writer is gone; sweep what is still counted, folders after everything else *)
Eof ==
  /\ alive /\ alive' = FALSE /\ last' = <<"EOF">> /\ UNCHANGED <<fail, strict>>
  /\ cleaned' = << {k \in Keys : reg[k] > 0 /\ k[1] # "folder"}, {k \in Keys : reg[k] > 0 /\ k[1] = "folder"} >>
  /\ reg' = [k \in Keys |-> 0] /\ reported' = FALSE
  /\ bal' = [k \in Keys |-> 0]

Next == (\E ln \in Lines : Consume(ln)) \/ Eof
Spec == Init /\ [][Next]_vars

Bounded == \A k \in Keys : reg[k] <= MaxCount

-----------------------------------------------------------------------------
(* the property *)
IsReq(ln, c) == Decodable(ln) /\ Cmd(ln) = c /\ RType(ln) \in Types
Valid(ln) == Decodable(ln) /\ (Cmd(ln) = "PROBE" \/ (RType(ln) \in Types /\ Cmd(ln) \in {"REGISTER", "UNREGISTER", "MAYBE_UNLINK"}))

\* code registry and property-level balance coincide
RegIsBalance == \A k \in Keys : reg[k] = bal[k]

\* a resource is destroyed in a step exactly when that step is the request bringing its balance to zero, or EOF
DestroyedExactlyAtZero ==
  [][ \A ln \in Lines : Consume(ln) =>
        /\ cleaned'[2] = {}
        /\ cleaned'[1] = IF IsReq(ln, "MAYBE_UNLINK") /\ bal[<<RType(ln), Name(ln)>>] = 1
                         THEN {<<RType(ln), Name(ln)>>} ELSE {} ]_vars
NeverWhilePositiveNorAfterUnregister ==
  [][ \A k \in cleaned'[1] \cup cleaned'[2] : bal[k] >= 1 /\ (alive' => bal[k] = 1) ]_vars
SweepComplete ==
  [][ (alive /\ ~alive') =>
        /\ cleaned'[1] \cup cleaned'[2] = {k \in Keys : bal[k] > 0}
        /\ \A k \in cleaned'[1] : k[1] # "folder"
        /\ \A k \in cleaned'[2] : k[1] = "folder" ]_vars
\* malformed / unknown / uncounted requests are reported, change nothing, and do not stop the tracker
BadLinesAreInert ==
  [][ \A ln \in Lines : Consume(ln) =>
        LET uncounted == /\ Valid(ln) /\ Cmd(ln) \in {"UNREGISTER", "MAYBE_UNLINK"}
                         /\ bal[<<RType(ln), Name(ln)>>] = 0
        IN IF ~Valid(ln) \/ uncounted
           THEN reported' /\ reg' = reg /\ alive' /\ cleaned' = None2
           ELSE reported' <=> (fail /\ strict /\ cleaned'[1] # {}) ]_vars   \* (the failed destruction of a strict run)
\* nothing is ever cleaned once the tracker has ended
DeadIsSilent == [][ ~alive => UNCHANGED vars ]_vars
=============================================================================
