---- MODULE MC_TrackerTree ----
EXTENDS TrackerTree
====
