---- MODULE MC_TrackerTree ----
EXTENDS TrackerTree
MCConfs == AllConfs
====
