---------------------------- MODULE TrackerTree ----------------------------
(* C12 + C13.  A tree of loky processes, the resource tracker(s) they report to, the tracked files and the named
   semaphores they create.

   Tracker ids are abstract (1, 2, ...): the conformance harness maps them to real pids.  A process learns its tracker
   from its creator (the tracker's pipe end and pid travel in the preparation data); a tracked operation on a dead
   tracker starts a new one for that process.  A tracker sweeps what is still registered with it when the last process
   holding its pipe is gone; SIGINT / SIGTERM do not affect it; SIGKILL does (and then nothing it knew is swept).   *)
EXTENDS Naturals, FiniteSets, Sequences, TLC

CONSTANTS Procs,        \* process names; "r" is the root
          MaxT,         \* trackers that can ever be started
          MaxOps, MaxRes,
          Confs         \* configurations explored: records [method, imp, strict] (see conf below)

VARIABLES parent, alive, trk, tAlive, tStarted, holders, swept,
          res,          \* resources: res[i] = [owner, tracker, kind ("file" | "sem"), exists, registered]
          conf,         \* configuration of the tree, fixed at Init:
                        \*   method: start method, "loky" | "loky_init_main" (the child re-imports the parent's main module)
                        \*   imp:    the main module performs a tracked operation (creates a lock) when it is imported
                        \*   strict: the interpreters run with warnings turned into errors (-W error); no transition depends on it
          last, nops
vars == <<parent, alive, trk, tAlive, tStarted, holders, swept, res, conf, last, nops>>

AllConfs == [method : {"loky", "loky_init_main"}, imp : BOOLEAN, strict : BOOLEAN]
ImpLock(p, t) == [owner |-> p, tracker |-> t, kind |-> "sem", exists |-> TRUE, registered |-> TRUE]

Init == /\ parent \in {f \in [Procs \ {"r"} -> Procs] : \A p \in DOMAIN f : f[p] # p /\ (f[p] = "r" \/ f[f[p]] = "r")}
        /\ alive = [p \in Procs |-> IF p = "r" THEN "alive" ELSE "unborn"]
        /\ conf \in Confs
        /\ swept = [t \in 1..MaxT |-> FALSE] /\ last = <<"init">> /\ nops = 0
        \* the root's main module is imported before anything else: with conf.imp its lock starts tracker 1
        /\ IF conf.imp
           THEN /\ trk = [p \in Procs |-> IF p = "r" THEN 1 ELSE 0] /\ tAlive = [t \in 1..MaxT |-> t = 1] /\ tStarted = 1
                /\ holders = [t \in 1..MaxT |-> IF t = 1 THEN {"r"} ELSE {}] /\ res = <<ImpLock("r", 1)>>
           ELSE /\ trk = [p \in Procs |-> 0] /\ tAlive = [t \in 1..MaxT |-> FALSE] /\ tStarted = 0
                /\ holders = [t \in 1..MaxT |-> {}] /\ res = <<>>

Tick == nops < MaxOps /\ nops' = nops + 1
\* the tracker process p talks to after making sure one is running (ensure_running): a new one if none or dead
NeedNew(p) == trk[p] = 0 \/ ~tAlive[trk[p]]
Ensure(p) == IF NeedNew(p) THEN tStarted + 1 ELSE trk[p]

\* sweep of tracker t when its last holder is gone: whatever is still registered with it is destroyed
SweepIfLast(h, t, rs) == IF h[t] = {} /\ tAlive[t] /\ t # 0
                         THEN [i \in 1..Len(rs) |-> IF rs[i].tracker = t /\ rs[i].registered THEN [rs[i] EXCEPT !.exists = FALSE, !.registered = FALSE] ELSE rs[i]]
                         ELSE rs

Spawn(p, c) ==
  /\ Tick /\ alive[p] = "alive" /\ alive[c] = "unborn" /\ parent[c] = p
  /\ (NeedNew(p) => tStarted < MaxT)
  /\ LET t == Ensure(p) IN
     /\ trk' = [trk EXCEPT ![p] = t, ![c] = t]
     /\ tStarted' = IF NeedNew(p) THEN tStarted + 1 ELSE tStarted
     /\ tAlive' = [tAlive EXCEPT ![t] = TRUE]
     /\ holders' = [holders EXCEPT ![t] = @ \cup {p, c}]
     \* loky_init_main: the child imports the main module once the tracker handle it was given is installed, so the lock
     \* created by that import is registered with the tree's tracker
     /\ res' = IF conf.method = "loky_init_main" /\ conf.imp THEN Append(res, ImpLock(c, t)) ELSE res
  /\ alive' = [alive EXCEPT ![c] = "alive"]
  /\ last' = <<"spawn", p, c>> /\ UNCHANGED <<parent, swept, conf>>

\* a tracked operation: register a temporary file (kind "file") or create a named semaphore (kind "sem")
Track(p, kind) ==
  /\ Tick /\ alive[p] = "alive" /\ Len(res) < MaxRes + (IF conf.imp THEN 1 ELSE 0)
  /\ (NeedNew(p) => tStarted < MaxT)
  /\ LET t == Ensure(p) IN
     /\ trk' = [trk EXCEPT ![p] = t]
     /\ tStarted' = IF NeedNew(p) THEN tStarted + 1 ELSE tStarted
     /\ tAlive' = [tAlive EXCEPT ![t] = TRUE]
     /\ holders' = [holders EXCEPT ![t] = @ \cup {p}]
     /\ res' = Append(res, [owner |-> p, tracker |-> t, kind |-> kind, exists |-> TRUE, registered |-> TRUE])
  /\ last' = <<"track", p, kind>> /\ UNCHANGED <<parent, alive, swept, conf>>

\* the owning object is collected in its process: the semaphore is unlinked, then unregistered -- a tracked operation,
\* which (re)starts a tracker for that process if its tracker is dead
Collect(i) ==
  /\ Tick /\ i \in 1..Len(res) /\ res[i].kind = "sem" /\ res[i].exists /\ alive[res[i].owner] = "alive"
  /\ LET p == res[i].owner IN
     /\ (NeedNew(p) => tStarted < MaxT)
     /\ LET t == Ensure(p) IN
        /\ trk' = [trk EXCEPT ![p] = t]
        /\ tStarted' = IF NeedNew(p) THEN tStarted + 1 ELSE tStarted
        /\ tAlive' = [tAlive EXCEPT ![t] = TRUE]
        /\ holders' = [holders EXCEPT ![t] = @ \cup {p}]
  /\ res' = [res EXCEPT ![i] = [@ EXCEPT !.exists = FALSE, !.registered = FALSE]]
  /\ last' = <<"collect", i>> /\ UNCHANGED <<parent, alive, swept, conf>>

\* a process ends: "exit" runs finalizers (its own semaphores are unlinked), "kill" does not
Die(p, how) ==
  /\ Tick /\ alive[p] = "alive"
  /\ alive' = [alive EXCEPT ![p] = "dead"]
  /\ LET ownSems == {i \in 1..Len(res) : res[i].owner = p /\ res[i].kind = "sem" /\ res[i].exists}
         \* a normal end runs the finalizers of p's semaphores (unlink + unregister): with a dead tracker this starts a
         \* new tracker, which ends as soon as p is gone
         restart == how = "exit" /\ ownSems # {} /\ NeedNew(p) /\ tStarted < MaxT
         h == [t \in 1..MaxT |-> holders[t] \ {p}]
         rs1 == IF how = "exit"
                THEN [i \in 1..Len(res) |-> IF i \in ownSems THEN [res[i] EXCEPT !.exists = FALSE, !.registered = FALSE] ELSE res[i]]
                ELSE res
         F[t \in 0..MaxT] == IF t = 0 THEN rs1 ELSE SweepIfLast(h, t, F[t - 1])
     IN /\ holders' = h /\ res' = F[MaxT]
        /\ tStarted' = IF restart THEN tStarted + 1 ELSE tStarted
        /\ tAlive' = IF restart THEN [tAlive EXCEPT ![tStarted + 1] = TRUE] ELSE tAlive
        /\ swept' = [t \in 1..MaxT |-> swept[t] \/ (h[t] = {} /\ tAlive[t] /\ holders[t] # {}) \/ (restart /\ t = tStarted + 1)]
  /\ last' = <<"die", p, how>> /\ UNCHANGED <<parent, trk, conf>>

\* a tracked file disappears behind the tracker's back (its user deleted it and never unregistered): the tracker's later
\* attempt to destroy it fails, which must not keep it from destroying everything else it still knows
Vanish(i) == /\ Tick /\ i \in 1..Len(res) /\ res[i].kind = "file" /\ res[i].exists /\ res[i].registered
             /\ res' = [res EXCEPT ![i] = [@ EXCEPT !.exists = FALSE]]
             /\ last' = <<"vanish", i>> /\ UNCHANGED <<parent, alive, trk, tAlive, tStarted, holders, swept, conf>>

SignalTracker(t, sig) == /\ Tick /\ tAlive[t] /\ last' = <<"signal", t, sig>>
                         /\ UNCHANGED <<parent, alive, trk, tAlive, tStarted, holders, swept, res, conf>>
KillTracker(t) == /\ Tick /\ tAlive[t] /\ ~swept[t] /\ holders[t] # {}
                  /\ tAlive' = [tAlive EXCEPT ![t] = FALSE] /\ last' = <<"killtracker", t>>
                  /\ UNCHANGED <<parent, alive, trk, tStarted, holders, swept, res, conf>>

Next == \/ \E p, c \in Procs : Spawn(p, c)
        \/ \E p \in Procs, k \in {"file", "sem"} : Track(p, k)
        \/ \E i \in 1..(MaxRes + Cardinality(Procs)) : Collect(i) \/ Vanish(i)
        \/ \E p \in Procs, how \in {"exit", "kill"} : Die(p, how)
        \/ \E t \in 1..MaxT : KillTracker(t) \/ (\E s \in {"INT", "TERM"} : SignalTracker(t, s))
Spec == Init /\ [][Next]_vars

-----------------------------------------------------------------------------
NoKill == \A t \in 1..MaxT : t <= tStarted => (tAlive[t] \/ swept[t] \/ holders[t] = {})
\* C12: while no tracker was killed, every process of the tree reports to the single tracker started first
\* every import-time lock of a child is registered with the tracker its creator uses (not with a private one)
ImportsShareTracker == \A i \in 1..Len(res) : res[i].tracker \in 1..tStarted
SingleTracker == (tStarted >= 1 /\ tAlive[1] /\ tStarted = 1) => \A p \in Procs : trk[p] \in {0, 1}
OneTrackerUnlessKilled == (\A t \in 1..MaxT : t <= tStarted => tAlive[t] \/ swept[t]) => tStarted <= 1
\* the end-of-life cleanup happens only after the last process holding the tracker's pipe is gone
SweepOnlyAfterLast == \A t \in 1..MaxT : swept[t] => holders[t] = {}
\* self-healing: a tracked operation always ends with a live tracker for that process
SelfHeal == [][ \A p \in Procs, k \in {"file", "sem"} : Track(p, k) => tAlive'[trk'[p]] ]_vars
SignalsIgnored == [][ (\E t \in 1..MaxT, s \in {"INT", "TERM"} : SignalTracker(t, s)) => UNCHANGED <<tAlive, res, holders, swept>> ]_vars
\* C13: once every process is gone, nothing created by the tree is left -- unless its tracker was killed
TreeGone == \A p \in Procs : alive[p] # "alive"
NothingOutlives == TreeGone => \A i \in 1..Len(res) : res[i].exists => ~tAlive[res[i].tracker] /\ ~swept[res[i].tracker]
=============================================================================
