SPECIFICATION Spec
CONSTANTS
  Waiters = {"a", "b"}
  Timed = {"a"}
  Notifiers = {"N"}
  Kind <- K_a
  Reps = 1

CHECK_DEADLOCK FALSE
