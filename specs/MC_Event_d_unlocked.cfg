SPECIFICATION SpecF
CONSTANTS
  Threads <- T4d
  Prog <- P_d
  ClearLocked = FALSE
VIEW View
INVARIANT FlagBinary
INVARIANT Coherent
INVARIANT NoLostWakeup
PROPERTY PeekTruth
