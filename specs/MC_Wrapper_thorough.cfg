SPECIFICATION Spec
CONSTANTS
  Kinds = {"lambda", "closure", "rec", "cinst", "inst", "ccls", "cls", "icinst", "icls", "sinst", "bufinst"}
  MaxSt = 3
  MaxDepth = 2
  Protos = {0, 1, 2, 3, 4, 5}
  MaxSteps = 7
INVARIANT StBounded
PROPERTY ArrivalRule
PROPERTY OrigUntouched
CHECK_DEADLOCK FALSE
