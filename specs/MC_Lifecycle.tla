---- MODULE MC_Lifecycle ----
EXTENDS Lifecycle
====
