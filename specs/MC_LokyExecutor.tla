---------------------------- MODULE MC_LokyExecutor ----------------------------
EXTENDS LokyExecutor
Perm == Permutations(Pids)
K1_ok == [t \in 1..1 |-> "ok"]
K2_ok == [t \in 1..2 |-> "ok"]
K2_bad == [t \in 1..2 |-> IF t = 1 THEN "bad_arg" ELSE "ok"]
K2_crash == [t \in 1..2 |-> IF t = 1 THEN "crash" ELSE "ok"]
K2_big == [t \in 1..2 |-> IF t = 1 THEN "big" ELSE "ok"]
K2_huge == [t \in 1..2 |-> IF t = 1 THEN "long" ELSE "huge"]
K2_okhuge == [t \in 1..2 |-> IF t = 1 THEN "ok" ELSE "huge"]
K2_long == [t \in 1..2 |-> IF t = 1 THEN "long" ELSE "ok"]
K3_mix == [t \in 1..3 |-> IF t = 1 THEN "bad_arg" ELSE IF t = 2 THEN "ok" ELSE "big"]
K2_unload == [t \in 1..2 |-> IF t = 1 THEN "unload" ELSE "ok"]
=============================================================================
