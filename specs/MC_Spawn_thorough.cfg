SPECIFICATION Spec
CONSTANTS
  Slots = {57, 123, 240}
  EnvKeys = {"A", "B", "C"}
  Ends <- MC_Ends_thorough
  Methods = {"loky", "loky_init_main"}
  Launches = {"script", "module"}
INVARIANT NoLeak
INVARIANT SentinelIffGone
INVARIANT ExitFaithful
INVARIANT Emit
CHECK_DEADLOCK FALSE
