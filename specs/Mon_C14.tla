---------------------------- MODULE Mon_C14 ----------------------------
(* Property monitor for C14 (Condition part): a TOTAL state machine over observation traces of executions of the
   real Condition code.  Observations come from the modelled semaphores and from the calling threads, never from a
   hook inside loky:
     asleep(t, timed)      t has released the lock inside wait() and blocks on the wait semaphore
     granted(t)            t's blocking acquire of the wait semaphore succeeded
     timedout(t)           t's blocking acquire ended by timeout
     wait_end(t,res,holds) wait() returned res to t; holds = t owns the lock at that moment
     notify_begin(t,kind) / notify_end(t,kind)   bracket notify() / notify_all() (called holding the lock)
     exc(t, type)          a call raised
     end(blocked)          quiescence after the epilogue; blocked = threads that never finished
   A batch of traces is one JSON file (IOEnv.TRACE_FILE); tid selects the trace.  `ok` turns FALSE at the first event
   that contradicts the property, `why` names the clause.  Known finding D5 (lost notify) is reported through
   `known` and a printed line instead of `ok`, so that other clauses keep being checked on the same trace.   *)
EXTENDS Naturals, Sequences, FiniteSets, TLC, Json, IOUtils

Traces == JsonDeserialize(IOEnv.TRACE_FILE)

VARIABLES tid, l, ok, why, known,
          asleep,      \* waiters blocked on the wait semaphore
          timedW,      \* those of them whose wait has a timeout
          gotPermit,   \* waiters whose current wait was granted
          gotTimeout,  \* waiters whose current wait timed out
          credits,     \* wake-ups legitimately outstanding
          cur          \* the notify call in progress: [kind, steady, woke] or [kind |-> "none"]
vars == <<tid, l, ok, why, known, asleep, timedW, gotPermit, gotTimeout, credits, cur>>

NoCur == [kind |-> "none", steady |-> {}, woke |-> {}]
Init == /\ tid \in 1..Len(Traces) /\ l = 1 /\ ok = TRUE /\ why = "none" /\ known = {}
        /\ asleep = {} /\ timedW = {} /\ gotPermit = {} /\ gotTimeout = {} /\ credits = 0 /\ cur = NoCur

Ev == Traces[tid][l]
Fail(msg) == ok' = FALSE /\ why' = msg
Fine == UNCHANGED <<ok, why>>

Step ==
  /\ ok /\ l <= Len(Traces[tid])
  /\ l' = l + 1 /\ tid' = tid
  /\ LET e == Ev IN
     CASE e.ev = "asleep" ->
            /\ asleep' = asleep \cup {e.t}
            /\ timedW' = IF e.timed THEN timedW \cup {e.t} ELSE timedW \ {e.t}
            /\ gotPermit' = gotPermit \ {e.t} /\ gotTimeout' = gotTimeout \ {e.t}
            /\ UNCHANGED <<credits, cur, known>> /\ Fine
       [] e.ev = "granted" ->
            /\ asleep' = asleep \ {e.t} /\ gotPermit' = gotPermit \cup {e.t}
            /\ credits' = IF credits > 0 THEN credits - 1 ELSE 0
            /\ cur' = IF cur.kind # "none" THEN [cur EXCEPT !.woke = @ \cup {e.t}] ELSE cur
            /\ UNCHANGED <<timedW, gotTimeout, known>>
            /\ IF credits = 0 THEN Fail("a waiter was woken without a notification (stale wake-up permit): wait returns True spuriously")
               ELSE Fine
       [] e.ev = "timedout" ->
            /\ asleep' = asleep \ {e.t} /\ gotTimeout' = gotTimeout \cup {e.t}
            /\ UNCHANGED <<timedW, gotPermit, credits, cur, known>>
            /\ IF e.t \notin timedW THEN Fail("a wait without timeout ended by timeout") ELSE Fine
       [] e.ev = "wait_end" ->
            /\ gotPermit' = gotPermit \ {e.t} /\ gotTimeout' = gotTimeout \ {e.t}
            /\ UNCHANGED <<asleep, timedW, credits, cur, known>>
            /\ IF ~e.holds THEN Fail("wait() returned without holding the lock")
               ELSE IF e.res /\ e.t \notin gotPermit THEN Fail("wait() returned True although it was not notified")
               ELSE IF ~e.res /\ e.t \notin gotTimeout THEN Fail("wait() returned False although its timeout did not expire")
               ELSE Fine
       [] e.ev = "notify_begin" ->
            /\ cur' = [kind |-> e.kind, steady |-> asleep \ timedW, woke |-> {}]
            /\ credits' = IF e.kind = "notify_all" THEN Cardinality(asleep)
                          ELSE IF asleep # {} THEN 1 ELSE 0
            /\ UNCHANGED <<asleep, timedW, gotPermit, gotTimeout, known>>
            /\ IF cur.kind # "none" THEN Fail("two notifications in progress at once: the lock does not exclude") ELSE Fine
       [] e.ev = "notify_end" ->
            /\ cur' = NoCur /\ credits' = 0
            /\ UNCHANGED <<asleep, timedW, gotPermit, gotTimeout>>
            /\ IF cur.kind = "notify_all" /\ (cur.steady \cap asleep) # {}
               THEN Fail("notify_all returned while a waiter that was asleep is still not woken") /\ UNCHANGED known
               ELSE IF cur.kind = "notify" /\ cur.steady # {} /\ cur.woke = {}
               THEN /\ known' = known \cup {"D5"} /\ Fine
                    /\ PrintT(<<"KNOWN", "D5", tid>>)
               ELSE Fine /\ UNCHANGED known
       [] e.ev = "exc" ->
            /\ UNCHANGED <<asleep, timedW, gotPermit, gotTimeout, credits, cur, known>>
            /\ IF e.type = "AssertionError" THEN Fail("an internal assertion of Condition failed")
               ELSE Fail("a Condition method raised an unexpected exception")
       [] e.ev = "end" ->
            /\ UNCHANGED <<asleep, timedW, gotPermit, gotTimeout, credits, cur, known>>
            /\ IF e.blocked # <<>> THEN Fail("threads are still blocked after notify_all: the condition is unusable after the burst")
               ELSE Fine
       [] OTHER -> UNCHANGED <<asleep, timedW, gotPermit, gotTimeout, credits, cur, known>> /\ Fine

Spec == Init /\ [][Step]_vars
Ok == ok
=============================================================================
