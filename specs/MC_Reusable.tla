---- MODULE MC_Reusable ----
EXTENDS Reusable
Sz12 == [c \in {"c1", "c2"} |-> IF c = "c1" THEN 1 ELSE 2]
Sz21 == [c \in {"c1", "c2"} |-> IF c = "c1" THEN 2 ELSE 1]
Sz121 == [c \in {"c1", "c2", "c3"} |-> IF c = "c2" THEN 2 ELSE 1]
====
