---------------------------- MODULE Trace_LokyExecutor ----------------------------
(* Code -> spec for the executor protocol: an execution of the REAL loky code on E-SIM is recorded as the sequence of
   primitive operations its threads performed (engine/sim/harness.py, `decisions`), projected by
   checks/exec_trace.py onto the operations that have an unambiguous counterpart in LokyExecutor.tla (the key events
   below) and validated here: the execution is accepted iff the key events, in their recorded order, can be matched
   by the corresponding labelled steps of LokyExecutor.tla, the other steps of the specification (control labels,
   operations that are not logged) being taken silently whenever the specification allows them.

   An event is a record [w, a, o, x, t]:  w = "U" | "M" | "F" | "E" | "C" | a worker in Pids,  a = operation,  o = "ok" | "timeout",
   x = the worker an operation is about (spawn, kill, join, crash) or "",  t = the task a successful cancel() was about or 0.
   A rejection means: the code did something in an order, or in a state, the specification does not allow.           *)
EXTENDS LokyExecutor, TraceLEData

VARIABLE l
tvars == <<vars, l>>

Ev == Trace[l]
Is(w, a) == l <= Len(Trace) /\ Ev.w = w /\ Ev.a = a
Adv == l' = l + 1
IsBig(p) == item[p] # Sentinel /\ Kind[item[p]] = "big"

(* ---- workers: every primitive operation of _process_worker / Queue.get / Queue.put is a labelled step ---- *)
WorkerEvent(p) ==
  /\ l <= Len(Trace) /\ Ev.w = p /\ Adv
  /\ \/ Ev.a = "cq.rlock.acq" /\ Ev.o = "ok" /\ wrl(p) /\ rlock' = p
     \/ Ev.a = "cq.rlock.acq" /\ Ev.o = "timeout" /\ wrl(p) /\ pc'[p] = "wtmo"
     \/ Ev.a = "cq.r.poll" /\ Ev.o = "ok" /\ wpoll(p) /\ pc'[p] = "wrecv"
     \/ Ev.a = "cq.r.poll" /\ Ev.o = "timeout" /\ wpoll(p) /\ pc'[p] = "wrlt"
     \/ Ev.a = "cq.r.poll0" /\ wpoll(p)                       \* the deadline passed while waiting for the lock: poll(0), either way
     \/ Ev.a = "cq.r.recv" /\ wrecv(p)
     \/ Ev.a = "cq.sem.rel" /\ (wsem(p) \/ wsem0(p))
     \/ Ev.a = "cq.rlock.rel" /\ (wrlrel(p) \/ wrlrel0(p) \/ wrlt(p))
     \/ Ev.a = "task.run" /\ wrun(p)
     \/ Ev.a = "task.crash" /\ wbody(p) /\ alive'[p] = "dead"
     \/ Ev.a = "rq.wlock.acq" /\ (wwl(p) \/ wann(p))
     \/ Ev.a = "rq.w.send" /\ (wsend(p) \/ wann2(p))
     \/ Ev.a = "rq.w.send2" /\ wsend2(p)
     \/ Ev.a = "rq.wlock.rel" /\ (wwrel(p) \/ wann3(p))
     \/ Ev.a = "mgmt.try" /\ wtmo(p)
     \/ Ev.a = "mgmt.rel" /\ wmrel(p)
     \/ Ev.a = "exitlock.acq" /\ Ev.o = "ok" /\ wexl(p) /\ timeouts' = timeouts
     \/ Ev.a = "exitlock.acq" /\ Ev.o = "timeout" /\ wexl(p) /\ timeouts' = timeouts + 1
WorkerSilent(p) ==
  /\ UNCHANGED l
  /\ \/ w0(p) \/ winit(p) \/ wunl(p) \/ wexit(p)
     \/ (~HasTimeout /\ wpoll(p) /\ pc'[p] = "wrecv")               \* blocking recv: no separate poll
     \/ (wbody(p) /\ alive'[p] = alive[p])                           \* the task body of a non-crashing task
     \/ (pc[p] = "wsend2" /\ ~(holding[p] # 0 /\ Kind[holding[p]] = "big") /\ wsend2(p))   \* one write for a small result

(* ---- feeder ---- *)
FeederEvent ==
  /\ l <= Len(Trace) /\ Ev.w = "F" /\ Adv
  /\ \/ Ev.a = "cq.w.send" /\ fsend /\ pc'["F"] \in {"f0", "fhuge"}
     \/ Ev.a = "cq.sem.rel" /\ (fsend \/ fhuge) /\ pc'["F"] = "ferrp"
     \/ Ev.a = "pending.pop" /\ ferrp
     \/ Ev.a = "running.remove" /\ ferrr
     \/ Ev.a = "wk.w.send" /\ ((ferrw /\ ~wkClosed) \/ (pc["F"] # "ferrw" /\ pc["U"] = "udel" /\ udel))
\* (the second write of a payload larger than the pipe completes while a worker drains it: the specification hands the
\*  payload over in one step, fhuge, when a worker is polling -- taken silently)
FeederSilent == UNCHANGED l /\ (f0 \/ ftake \/ (fhuge /\ pc'["F"] = "f0") \/ (ferrw /\ wkClosed))

(* ---- user thread ---- *)
UserEvent ==
  /\ l <= Len(Trace) /\ Ev.w = "U" /\ Adv
  /\ \/ Ev.a = "pending.set" /\ uenq
     \/ Ev.a = "spawn" /\ uspawn /\ alive'[Ev.x] = "alive" /\ alive[Ev.x] = "unborn"
     \/ Ev.a = "procs.set" /\ ureg
     \/ Ev.a = "wk.w.send" /\ (uwake2 \/ ((ufw \/ udel \/ uexw) /\ ~wkClosed))
     \/ Ev.a = "tjoin" /\ (ujoin \/ uexj) /\ mgr # "run"
UserSilent ==
  /\ UNCHANGED l
  /\ \/ u0 \/ ucheck \/ uwake1 \/ ulock \/ ustart \/ uunlock \/ uret \/ uf \/ uf2 \/ uend
     \/ (uspawn /\ alive' = alive)                                   \* loop exit
     \/ (~mgrStarted /\ (ujoin \/ uexj))                             \* nothing to join
     \/ (wkClosed /\ (ufw \/ udel \/ uexw))                         \* wakeup() on a closed pipe writes nothing
     \/ udel            \* (E-SIM: the collection of the executor object can happen in the controller thread, unlogged)

(* ---- manager thread ---- *)
ManagerEvent ==
  /\ l <= Len(Trace) /\ Ev.w = "M"
  /\ \/ Adv /\ Ev.a = "cq.sem.iszero" /\ mfull
     \/ Adv /\ Ev.a = "fut.set_running" /\ mrun
     \/ Adv /\ Ev.a = "running.add" /\ mradd
     \/ Adv /\ Ev.a = "cq.sem.acq" /\ mput
     \/ Adv /\ Ev.a = "wait" /\ mwait
     \/ Adv /\ Ev.a = "rq.r.recv" /\ mrecv /\ ready = "res"
     \/ Adv /\ Ev.a = "pending.pop" /\ mres
     \/ Adv /\ Ev.a = "running.remove" /\ mrunrm
     \/ Adv /\ Ev.a = "procs.pop" /\ mpop
     \/ Adv /\ Ev.a = "exitlock.rel" /\ (mrel \/ mj1)
     \/ Adv /\ Ev.a = "pjoin" /\ (mjoin \/ (mj5 /\ procs' = procs \ {Ev.x} /\ Ev.x \in procs))
     \/ Adv /\ Ev.a = "killtree" /\ ((mbkill \/ mkkill \/ mj5k) /\ procs' = procs \ {Ev.x} /\ Ev.x \in procs)
     \/ Adv /\ Ev.a = "cq.sem.try" /\ mj2 /\ nSent' = nSent + 1
     \/ Adv /\ Ev.a = "spawn" /\ mrspawn /\ alive'[Ev.x] = "alive" /\ alive[Ev.x] = "unborn"
     \/ Adv /\ Ev.a = "procs.set" /\ mrreg
     \* the executor object is collected when its last reference goes away: when the manager (or feeder) thread holds a
     \* temporary one, the weakref callback -- the specification's step udel -- runs there
     \/ Adv /\ Ev.a = "wk.w.send" /\ IF pc["U"] = "udel" THEN udel ELSE UNCHANGED vars
     \* operations the specification performs atomically with an earlier step: consumed without a step
     \/ Adv /\ UNCHANGED vars /\ \/ Ev.a = "exitlock.rel" /\ pc["M"] \in {"mj2", "mj3"}
                                 \/ Ev.a \in {"wait", "procs.pop"} /\ pc["M"] \in {"mj5", "mj5k", "mj6"}
                                 \/ Ev.a = "pjoin" /\ pc["M"] \in {"mj5", "mj5k", "mj6"} /\ Ev.x \notin procs
ManagerSilent ==
  /\ UNCHANGED l
  /\ \/ m0 \/ mloop \/ mtake \/ msnap \/ mclear \/ mp \/ mbflag \/ mbfail \/ mdecide \/ mrlock \/ mrunlock
     \/ msd \/ msflag \/ mkill \/ mkfail \/ mspend \/ mj3 \/ mj4 \/ mj5l \/ mj6
     \/ (mrecv /\ ready # "res")
     \/ ((mbkill \/ mkkill) /\ procs' = procs)                       \* loop exits
     \/ (mrspawn /\ alive' = alive)
     \/ (mj2 /\ nSent' = nSent)
     \/ (mj5 /\ procs' = procs /\ alive' = alive)
     \/ (mj5k /\ procs' = procs)
     \/ (mj1 /\ procs = {})                                          \* no exit lock to release

(* ---- environment ---- *)
EnvEvent == Is("E", "crash") /\ Adv /\ e0 /\ alive'[Ev.x] = "dead" /\ alive[Ev.x] = "alive"
EnvSilent == UNCHANGED l /\ e0 /\ UNCHANGED alive

TraceNext ==
  \/ \E p \in Pids : WorkerEvent(p) \/ WorkerSilent(p)
  \/ FeederEvent \/ FeederSilent \/ UserEvent \/ UserSilent \/ ManagerEvent \/ ManagerSilent \/ EnvEvent \/ EnvSilent
  \/ (Is("C", "cancel") /\ Adv /\ c0 /\ fut'[Ev.t] = "cancelled" /\ fut[Ev.t] = "pending")     \* a cancel() that returned True
  \/ (UNCHANGED l /\ c0 /\ cancels' = cancels)                                                  \* the canceller has nothing left to do

TraceInit == Init /\ l = 1 /\ TLCSet(1, 1)
TraceSpec == TraceInit /\ [][TraceNext]_tvars

\* progress register: the longest matched prefix (read by the POSTCONDITION / printed on rejection)
Track == IF l > TLCGet(1) THEN TLCSet(1, l) ELSE TRUE
\* the execution is accepted when every event has been consumed: reported as the violation of this "invariant"
NotAccepted == l <= Len(Trace)
Report == PrintT(<<"MATCHED", TLCGet(1) - 1, Len(Trace)>>)
=============================================================================
