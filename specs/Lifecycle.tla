---------------------------- MODULE Lifecycle ----------------------------
(* C20.  Macro-level typestate of executor lifecycles with a resource ledger, used as the generator of the histories
   that are executed with real executors (engine/real/lifecycle_real.py).
   A lifecycle = create an executor (plain or reusable), use it in one of several ways, end it in one of several ways,
   release it.  While it lives it owns parent-side resources (pipe ends, management threads, child processes, named
   semaphores); the property: once it has completed shutdown (or was broken and replaced) and was released, it owns
   nothing -- so repeating any history leaves the same resource counts as running it once.                        *)
EXTENDS Naturals, Sequences, TLC, Json

CONSTANTS Kinds, MaxLen

\* resources held by a live executor of each kind, in units: <<pipe ends, threads, children, semaphores>> for w workers
Owned(k) == CASE k \in {"plain_clean", "plain_ctx", "plain_nowait", "plain_kill", "plain_broken", "plain_timeout", "plain_cancel"} -> <<6, 2, 2, 9>>
              [] k \in {"reuse_same", "reuse_resize", "reuse_broken", "reuse_kill"} -> <<6, 2, 3, 10>>
              [] OTHER -> <<6, 2, 1, 8>>

VARIABLES hist, phase, ledger
vars == <<hist, phase, ledger>>
Zero == <<0, 0, 0, 0>>
Init == hist = <<>> /\ phase = "idle" /\ ledger = Zero

Begin(k) == /\ phase = "idle" /\ Len(hist) < MaxLen /\ phase' = "live"
            /\ hist' = Append(hist, k) /\ ledger' = Owned(k)
\* shutdown completed (or broken and replaced / killed) and the last reference dropped
EndIt == /\ phase = "live" /\ phase' = "idle" /\ ledger' = Zero /\ UNCHANGED hist
Next == (\E k \in Kinds : Begin(k)) \/ EndIt
Spec == Init /\ [][Next]_vars

ReleasedMeansNothingOwned == phase = "idle" => ledger = Zero
Emit == (phase = "idle" /\ Len(hist) >= 1) => PrintT(ToJson(<<"HIST", hist>>))
=============================================================================
