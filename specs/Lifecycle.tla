---------------------------- MODULE Lifecycle ----------------------------
(* C20.  Typestate of executor lifecycles with a ledger of the parent-side resources the executor owns, used (a) to
   state "a released executor owns nothing" over every combination of the lifecycle's dimensions and (b) as the
   generator of the histories that are executed with real executors (engine/real/lifecycle_real.py).

   A lifecycle is a record
       pool : "plain" | "reusable"                      ProcessPoolExecutor(...) / get_reusable_executor(...)
       load : "small" | "bigarg" | "bigres" | "nested"  what its tasks carry: a payload larger than the pipe buffer as
                                                        argument / as result, or an executor nested inside the worker
       busy : "idle" | "running" | "queued"             state when the end begins: all tasks done / every worker inside
                                                        a task / additionally tasks waiting in the call queue
       end  : how it ends (Ends below)
       ctx  : the start method of the workers: "loky" (default) | "spawn" | "forkserver" | "fork" (legal, discouraged: the
              worker is a copy of the parent, module state and held locks included)
       sig  : for end = "crash", the signal that kills one worker ("KILL" | "TERM" | "SEGV" | "RT": a real-time signal, which has
              no name in signal.Signals); "none" otherwise
   and goes through  Create -> Load -> End -> Join -> Release, each step acquiring or releasing the resources the code
   acquires or releases there (process_executor.py: __init__/_start_executor_manager_thread, kill_workers /
   shutdown_workers, join_executor_internals).

   The one subtle resource is the queue feeder thread: with a payload larger than the pipe buffer waiting to be sent
   and every worker inside a task, the feeder is blocked in send_bytes.  Workers that finish read the payload; workers
   that are killed do not, and the feeder then only returns if the parent closes its own read end of the call queue
   (switch CloseReaderOnKill; CPython gh-94777).  A blocked feeder keeps the call queue, its pipe ends and its
   semaphores alive.                                                                                               *)
EXTENDS Naturals, Sequences, FiniteSets, TLC, Json

CONSTANTS MaxLen,               \* lifecycles per history
          CloseReaderOnKill     \* TRUE: kill_workers() closes the parent's read end of the call queue

Pools == {"plain", "reusable"}
Loads == {"small", "bigarg", "bigres", "nested", "spawnfail"}     \* spawnfail: no worker can be spawned (the first submit() raises)
Busys == {"idle", "running", "queued"}
Ends  == {"wait", "ctx", "nowait", "kill", "crash", "timeout", "cancel", "resize", "replace_kill"}
Killing == {"kill", "crash", "replace_kill"}          \* ends in which workers die without reading the call queue
Sigs  == {"KILL", "TERM", "SEGV", "RT"}
Ctxs  == {"loky", "spawn", "forkserver", "fork"}

Valid(l) == /\ (l.end = "timeout" => l.busy = "idle")
            /\ (l.end = "cancel" => l.busy = "queued")
            /\ (l.end = "resize" => l.pool = "reusable" /\ l.busy = "idle")
            /\ (l.end = "replace_kill" => l.pool = "reusable")
            /\ (l.end = "crash" <=> l.sig # "none")
            /\ (l.load = "spawnfail" => l.busy = "idle" /\ l.end \in {"wait", "ctx", "nowait", "kill"})
            \* the other start methods: plain executors with small tasks, ended gracefully, by force or by idle time-outs
            /\ (l.ctx # "loky" => l.pool = "plain" /\ l.load = "small" /\ l.end \in {"wait", "kill", "timeout"})
Lives == {l \in [pool : Pools, load : Loads, busy : Busys, end : Ends, sig : Sigs \cup {"none"}, ctx : Ctxs] : Valid(l)}

VARIABLES hist, phase, cur, ledger, feederBlocked
vars == <<hist, phase, cur, ledger, feederBlocked>>
NoLife == [pool |-> "none", load |-> "none", busy |-> "none", end |-> "none", sig |-> "none", ctx |-> "none"]

Init == hist = <<>> /\ phase = "idle" /\ cur = NoLife /\ ledger = {} /\ feederBlocked = FALSE

\* ProcessPoolExecutor.__init__: wakeup pipe, call queue and result queue (pipes + their locks / semaphores)
Create(l) == /\ phase = "idle" /\ Len(hist) < MaxLen /\ l \in Lives
             /\ phase' = "created" /\ cur' = l
             /\ ledger' = {"wakeup_pipe", "call_pipe", "result_pipe", "queue_sems"}
             /\ UNCHANGED <<hist, feederBlocked>>
\* first submit: manager thread, feeder thread, worker processes (+ the exit-lock semaphore of each); then the load
Load == /\ phase = "created" /\ phase' = "loaded"
        \* (spawnfail: submit() raised while spawning the first worker: no thread was started, no worker exists)
        /\ ledger' = IF cur.load = "spawnfail" THEN ledger
                     ELSE ledger \cup {"mgr_thread", "feeder_thread", "workers", "worker_sems"}
                                 \cup (IF cur.load = "nested" /\ cur.busy # "idle" THEN {"grandchildren"} ELSE {})
        /\ feederBlocked' = (cur.load = "bigarg" /\ cur.busy = "queued")
        /\ UNCHANGED <<hist, cur>>
\* the end begins: the workers leave (sentinel / idle timeout) or are killed together with their descendants
End == /\ phase = "loaded" /\ phase' = "ending"
       /\ ledger' = ledger \ {"workers", "worker_sems", "grandchildren"}
       /\ feederBlocked' = IF cur.end \in Killing THEN (feederBlocked /\ ~CloseReaderOnKill) ELSE FALSE
       /\ UNCHANGED <<hist, cur>>
\* join_executor_internals: sentinel to the feeder, queues and wakeup pipe closed, manager thread returns
Join == /\ phase = "ending" /\ phase' = "joined"
        /\ ledger' = IF feederBlocked THEN {"feeder_thread", "call_pipe", "queue_sems"} ELSE {}
        /\ UNCHANGED <<hist, cur, feederBlocked>>
\* the last reference is dropped
Release == /\ phase = "joined" /\ phase' = "idle"
           /\ hist' = Append(hist, cur) /\ cur' = NoLife
           /\ UNCHANGED <<ledger, feederBlocked>>
\* the next lifecycle starts from what is left
Next == (\E l \in Lives : Create(l)) \/ Load \/ End \/ Join \/ Release
Spec == Init /\ [][Next]_vars

ReleasedMeansNothingOwned == phase = "idle" => ledger = {}
Emit == (phase = "idle" /\ Len(hist) >= 1) => PrintT(ToJson(<<"HIST", hist>>))
=============================================================================
