---------------------------- MODULE Trace_ResourceTracker ----------------------------
(* Trace validation for C11 (code -> spec): traces recorded from the real resource_tracker.main(fd) on arbitrary
   byte streams are checked, step by step, to be behaviours of ResourceTracker.tla whose outputs (what was
   destroyed in which phase, whether the line was reported) equal the observed ones.
   A batch of traces is one JSON file; tid selects the trace; `ok` turns FALSE at the first unexplainable event
   (total monitor: the verdict names trace, position and clause).                                           *)
EXTENDS ResourceTracker, Json, IOUtils, TraceRTData

Traces == JsonDeserialize(IOEnv.TRACE_FILE)
TraceTypes == {"folder", "file", "semlock"}

VARIABLES tid, l, ok, why
tvars == <<vars, tid, l, ok, why>>

AsSet(s) == {<<s[i][1], s[i][2]>> : i \in 1..Len(s)}
Ev == Traces[tid][l]

TInit == Init /\ tid \in 1..Len(Traces) /\ l = 1 /\ ok = TRUE /\ why = "none"

TStep ==
  /\ ok /\ l <= Len(Traces[tid])
  /\ l' = l + 1 /\ tid' = tid
  /\ IF Ev.eof THEN Eof ELSE Consume(Ev.line)
  /\ LET good_c == cleaned' = <<AsSet(Ev.c1), AsSet(Ev.c2)>>
         good_r == reported' = Ev.rep
     IN /\ ok' = (good_c /\ good_r)
        /\ why' = IF ~good_c THEN "destroyed set differs from the specification"
                  ELSE IF ~good_r THEN "reported flag differs from the specification" ELSE "none"

TSpec == TInit /\ [][TStep]_tvars
Ok == ok
=============================================================================
