SPECIFICATION Spec
CONSTANTS
  OsVals = {0, 1, 2, 4, 64}
  AffKinds = {"sched", "psutil_absent", "psutil_notimpl", "none"}
  AffVals = {1, 2, 4, 64}
  CgKinds = {"none", "v2max", "v2quota", "v1", "v1neg", "v1zero"}
  QP <- MC_QP
  EnvVals <- MC_Env
  ProbeVals <- MC_Probe
  MaxCalls = 2
  Emitting = TRUE
INVARIANT Agree
INVARIANT AtLeastOne
INVARIANT ProbeOnce
INVARIANT AtMostOneWarning
INVARIANT LogicalIsMin
INVARIANT Emit
CHECK_DEADLOCK FALSE
