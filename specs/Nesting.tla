---------------------------- MODULE Nesting ----------------------------
(* C19.  Nested parallelism: a tree of processes, each with the depth loky records for it (_CURRENT_DEPTH), a limit
   MAX (LOKY_MAX_DEPTH; <= 0 means unlimited) and a start method per executor.  Creating an executor in a process at
   depth d succeeds iff (MAX <= 0 \/ d < MAX) and not (method = "fork" /\ d >= 1); otherwise LokyRecursionError and no
   process is spawned.  Every worker of an executor -- spawned at first use, re-spawned after an idle timeout, or added
   by a resize -- is at depth(creator) + 1; code running in the worker's initializer is at that depth too.        *)
EXTENDS Integers, Sequences, FiniteSets, TLC

CONSTANTS MaxVals,      \* values of LOKY_MAX_DEPTH explored
          Methods,      \* start methods
          MaxProcs, MaxOps

VARIABLES max, procs,   \* procs: sequence of records [parent, depth, method]; process 1 is the root (depth 0)
          execs,        \* set of <<owner process, method>> executors created successfully
          last, out, nops
vars == <<max, procs, execs, last, out, nops>>

Init == /\ max \in MaxVals /\ procs = << [parent |-> 0, depth |-> 0, method |-> "root"] >>
        /\ execs = {} /\ last = <<"init">> /\ out = "none" /\ nops = 0

Allowed(d, m) == (max <= 0 \/ d < max) /\ ~(m = "fork" /\ d >= 1)

\* code running in process p (in a task or in the initializer: `place`) creates an executor with start method m
CreateExecutor(p, m, place) ==
  /\ nops < MaxOps /\ nops' = nops + 1
  /\ last' = <<"create", p, m, place>>
  /\ IF Allowed(procs[p].depth, m)
     THEN execs' = execs \cup {<<p, m>>} /\ out' = "ok"
     ELSE UNCHANGED execs /\ out' = "LokyRecursionError"
  /\ UNCHANGED <<max, procs>>

\* an executor gets a worker: at first submit, after a timeout (respawn), or by a resize
SpawnWorker(e, why) ==
  /\ nops < MaxOps /\ nops' = nops + 1 /\ Len(procs) < MaxProcs /\ e \in execs
  /\ procs' = Append(procs, [parent |-> e[1], depth |-> procs[e[1]].depth + 1, method |-> e[2]])
  /\ last' = <<"spawn", e[1], e[2], why>> /\ out' = "ok"
  /\ UNCHANGED <<max, execs>>

Next == \/ \E p \in 1..Len(procs), m \in Methods, place \in {"task", "initializer"} : CreateExecutor(p, m, place)
        \/ \E e \in execs, why \in {"submit", "respawn", "resize"} : SpawnWorker(e, why)
Spec == Init /\ [][Next]_vars

\* properties
DepthIsParentPlusOne == \A i \in 2..Len(procs) : procs[i].depth = procs[procs[i].parent].depth + 1
Bounded == \A i \in 1..Len(procs) : max > 0 => procs[i].depth <= max
NoForkBelowRoot == \A e \in execs : e[2] = "fork" => procs[e[1]].depth = 0
RefusedSpawnsNothing == [][ out' = "LokyRecursionError" => procs' = procs /\ execs' = execs ]_vars
Emit == PrintT(<<"VEC", max, [i \in 1..Len(procs) |-> procs[i].depth], last, out>>)
=============================================================================
