---------------------------- MODULE TraceRTData ----------------------------
(* Placeholder: the C11 check overwrites this module in its work directory with the literal set of request lines
   occurring in the recorded traces (a literal constant avoids re-evaluating a derived set in every state). *)
TraceLinesLit == { <<"PROBE", "0", "noop">> }
=============================================================================
