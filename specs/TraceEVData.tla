---- MODULE TraceEVData ----
(* Placeholder so that the module set parses on its own; checks/c14.py writes the real data module (one recorded execution
   of the real Event methods) next to a copy of the specifications. *)
EXTENDS Sequences
Trace == << [t |-> "S", a |-> "lock.acq", o |-> "ok"] >>
TraceThreads == {"S"}
TraceProg == [t \in TraceThreads |-> <<"set">>]
====
