---------------------------- MODULE LokyExecutor ----------------------------
(* The protocol of loky.process_executor.ProcessPoolExecutor: one submitting user thread (plus an environment that
   cancels futures), the executor manager thread, the queue feeder thread, N worker processes, and the primitives they
   share: call queue (slot semaphore `sem`, feeder buffer `buf`, pipe `pipe`, read lock `rlock`), result queue (`rq`,
   write lock `wlock`), wakeup pipe (`wake`), processes management lock (`mgmt`), shutdown lock (`shut`), one exit lock
   per worker, process sentinels.

   Written to be bound, not admired: one label per critical section / inter-process operation of the code, program
   counters named after the operation the thread is about to perform.  The environment (process "env") kills a live
   worker at ANY of its program points -- including while it holds rlock / wlock / mgmt, and between the two halves
   of a large result message -- and lets idle timeouts fire whenever a worker is blocked waiting for work.

   Known-defect switches (DESIGN.md section 5.3): each selects the behaviour of the code as it is now vs. another
   variant.  After the fix: commits of this round the code corresponds to
       WakeAfterSpawn = TRUE (D3), KeepRefs = TRUE (D1), SafeFail = TRUE (D12/D13), CancelWakes = TRUE (D17),
       JoinWatches = TRUE (D16/D22), CloseReaderOnKill = TRUE (D21), ExitChecked = TRUE (D15).
   Open findings are windows recorded in the ghost variable `hit`: properties are checked for behaviours with
   hit = {} ("no other violation"), and each open finding is reproduced by asking TLC to reach its window.

   The fault plans that drive the real code in E-SIM are extracted from TLC behaviours of this module: the pc of the
   victim, of the manager and of the feeder at the moment of each Crash / timeout step (checks/exec_plans.py).     *)
EXTENDS Naturals, FiniteSets, Sequences, TLC

CONSTANTS Pids,          \* pool of fresh process ids (respawn consumes them)
          MaxW,          \* max_workers
          K,             \* number of tasks submitted, ids 1..K in order
          Kind,          \* task kind: [1..K -> {"ok", "bad_arg", "crash", "long", "big", "unload", "huge"}]
          QSize,         \* capacity of the call queue (real: 2*max_workers + 1)
          MaxCrash, MaxTimeout, MaxCancel,
          MaxLeak,       \* workers that leave because their memory grew (clean, announced exit after a task)
          HasTimeout,    \* workers have an idle timeout
          FinalOps,      \* what the user does after submitting: subset of
                         \*   {"none", "shutdown_wait", "shutdown_nowait", "kill", "del", "exit"}
          InitFails,     \* workers whose initializer raises
          WakeAfterSpawn, KeepRefs, SafeFail, CancelWakes,
          ExitChecked,        \* D15: the manager looks at the exit status of a worker that announced a clean exit
          CloseReaderOnKill,  \* D21: kill_workers() closes the parent's read end of the call queue
          JoinWatches    \* D16/D22: the final join watches the workers' sentinels and kills the others when one died abruptly

Tasks == 1..K
Sentinel == 0

(* --algorithm loky
variables
  shutdownF = FALSE, brokenF = FALSE, killF = FALSE, execAlive = TRUE, refsDropped = FALSE, globalExit = FALSE,
  pending = {}, fut = [t \in Tasks |-> "new"], workIds = <<>>, running = {},
  sem = QSize, buf = <<>>, pipe = <<>>, cqClosed = FALSE, rdClosed = FALSE,
  rq = <<>>, wake = 0, wkClosed = FALSE,
  procs = {}, alive = [p \in Pids |-> "unborn"], holding = [p \in Pids |-> 0], exitLock = [p \in Pids |-> 0],
  announced = [p \in Pids |-> FALSE],
  rlock = "free", wlock = "free", mgmt = "free", shut = "free",
  mgrStarted = FALSE, mgr = "run", unew = 0, mnew = 0,
  watch = {}, ready = "none", msg = <<>>, cur = 0, nStop = 0, nSent = 0,
  crashes = 0, timeouts = 0, cancels = 0, leaks = 0,
  \* ghosts
  execCount = [t \in Tasks |-> 0], cancelOK = {}, hit = {}, userDone = FALSE, fop = "none";

define
  Fresh == {p \in Pids : alive[p] = "unborn"}
  Alive(p) == alive[p] = "alive"
  Dead(p) == alive[p] \in {"dead", "clean"}
  Terminal(t) == fut[t] \in {"new", "cancelled", "result", "exc_task", "exc_pickle", "exc_broken", "exc_shutdown"}
  ShuttingDown == globalExit \/ ((~execAlive \/ shutdownF) /\ ~brokenF)
  NeedSpawn == Cardinality(procs) < MaxW /\ Fresh # {}
  Busy == {p \in Pids : Alive(p) /\ holding[p] # 0}
end define;

\* _adjust_process_count: Process.start() -- the worker runs from here on -- and only then its registration in
\* executor._processes (the window in which a worker exists that no sentinel snapshot can contain: D3, D19)
macro startOne(v) begin
  with p \in Fresh do
     alive[p] := "alive"; v := p;
  end with;
end macro;

\* the submitting thread: submit() x K, then one final operation
process user = "U"
variables ut = 1;
begin
 u0: while ut <= K do
 ucheck: await shut = "free";
         if shutdownF \/ brokenF \/ globalExit then ut := K + 1; goto u0; else shut := "U"; end if;
 uenq:   pending := pending \cup {ut}; fut[ut] := "pending"; workIds := Append(workIds, ut);
 uwake1: if ~WakeAfterSpawn then wake := wake + 1; end if;
 ulock:  await mgmt = "free"; mgmt := "U";
 uspawn: while NeedSpawn do
            startOne(unew);
 ureg:      procs := procs \cup {unew};
         end while;
 ustart: mgrStarted := TRUE;
 uunlock: mgmt := "free";
 uwake2: if WakeAfterSpawn then wake := wake + 1; end if;
 uret:   shut := "free"; ut := ut + 1;
     end while;
 uf: with op \in FinalOps do fop := op; end with;
 uf2: if fop \in {"shutdown_nowait", "shutdown_wait", "kill"} then
          await shut = "free"; shutdownF := TRUE; killF := (fop = "kill");
 ufw:     await shut = "free"; if ~wkClosed then wake := wake + 1; end if;
          if fop = "shutdown_nowait" /\ ~KeepRefs /\ mgr = "run" /\ mgrStarted then refsDropped := TRUE; end if;
 ujoin:   if fop # "shutdown_nowait" /\ mgrStarted then await mgr # "run"; end if;
      elsif fop = "del" then
 udel:    await shut = "free"; execAlive := FALSE; if ~wkClosed then wake := wake + 1; end if;
      elsif fop = "exit" then
          globalExit := TRUE;
 uexw:    await shut = "free"; if ~wkClosed then wake := wake + 1; end if;
 uexj:    if mgrStarted then await mgr # "run"; end if;
      end if;
 uend: userDone := TRUE;
end process;

\* Future.cancel() from anywhere, at any time
process canceller = "C"
begin
 c0: while cancels < MaxCancel do
       with t \in {x \in Tasks : fut[x] = "pending"} do
          fut[t] := "cancelled"; cancelOK := cancelOK \cup {t}; cancels := cancels + 1;
       end with;
     end while;
end process;

process manager = "M"
begin
 m0: await mgrStarted;
 mloop: while TRUE do
 mfull:   if sem = 0 \/ workIds = <<>> then goto msnap; end if;
 mtake:   cur := Head(workIds); workIds := Tail(workIds);
 mrun:    if fut[cur] = "cancelled" then
             pending := pending \ {cur};
             \* D17: dropping a cancelled item produces no event; unless the manager wakes itself up it can go to sleep
             \* with nothing pending although a shutdown is in progress
             if CancelWakes then wake := wake + 1; end if;
             goto mfull;
          else fut[cur] := "running"; end if;
 mradd:   running := running \cup {cur};
 mput:    await sem > 0; sem := sem - 1; buf := Append(buf, cur); goto mfull;
 msnap:   watch := procs;
 mwait:   await rq # <<>> \/ wake > 0 \/ (\E p \in watch : Dead(p));
          if rq # <<>> then ready := "res"; elsif wake > 0 then ready := "wake"; else ready := "sent"; end if;
 mrecv:   if ready = "res" then
             await Head(rq)[1] # "part";            \* recv() blocks on a half-written message
             msg := Head(rq); rq := Tail(rq);
          elsif ready = "wake" then msg := <<"wake", 0>>;
          else msg := <<"broken", 0>>; end if;
 mclear:  wake := 0;
 mp:      if msg[1] \in {"broken", "tb"} then
 mbflag:     await shut = "free"; brokenF := TRUE; shutdownF := TRUE;
 mbfail:     while pending # {} do
                with t \in pending do
                   if fut[t] = "cancelled" /\ ~SafeFail then mgr := "crashed"; goto mdone;
                   else fut[t] := IF fut[t] = "cancelled" THEN "cancelled" ELSE "exc_broken"; pending := pending \ {t}; end if;
                end with;
             end while;
 mbkill:     while procs # {} do
                with p \in procs do
                   if Alive(p) /\ mgmt = p then hit := hit \cup {"D14"}; end if;
                   alive[p] := IF Dead(p) THEN alive[p] ELSE "dead"; procs := procs \ {p};
                end with;
             end while;
             if CloseReaderOnKill then rdClosed := TRUE; end if;
             goto mj1;
          elsif msg[1] = "res" then
 mres:       if msg[2] \in pending then
                pending := pending \ {msg[2]};
                fut[msg[2]] := IF Kind[msg[2]] = "unload" THEN fut[msg[2]] ELSE "result";
 mrunrm:        running := running \ {msg[2]};
             end if;
          elsif msg[1] = "pid" then
 mpop:       await mgmt = "free"; procs := procs \ {msg[2]};
 mrel:       exitLock[msg[2]] := 1;
 mjoin:      await Dead(msg[2]);
             \* D15: a worker that announced a clean exit but did not end with status 0 died abruptly while leaving
             \* (possibly holding the result-queue write lock): the pool is broken
             if ExitChecked /\ alive[msg[2]] = "dead" then msg := <<"broken", 0>>; goto mbflag; end if;
 mdecide:    if (Cardinality(pending) > Cardinality(running) \/ Cardinality(running) > Cardinality(procs)) then
                if ~execAlive then hit := hit \cup {"D2"};
                elsif Cardinality(procs) < MaxW then
                   if refsDropped then mgr := "crashed"; goto mdone; end if;
 mrlock:           await mgmt = "free"; mgmt := "M";
 mrspawn:          while NeedSpawn do
                      startOne(mnew);
 mrreg:               procs := procs \cup {mnew};
                   end while;
 mrunlock:         mgmt := "free";
                end if;
             end if;
          end if;
 msd:     if ShuttingDown then
 msflag:     await shut = "free"; shutdownF := TRUE;
 mkill:      if killF then
 mkfail:        while pending # {} do
                   with t \in pending do
                      if fut[t] = "cancelled" /\ ~SafeFail then mgr := "crashed"; goto mdone;
                      else fut[t] := IF fut[t] = "cancelled" THEN "cancelled" ELSE "exc_shutdown"; pending := pending \ {t}; end if;
                   end with;
                end while;
 mkkill:        while procs # {} do
                   with p \in procs do
                      if Alive(p) /\ mgmt = p then hit := hit \cup {"D14"}; end if;
                      alive[p] := IF Dead(p) THEN alive[p] ELSE "dead"; procs := procs \ {p};
                   end with;
                end while;
                if CloseReaderOnKill then rdClosed := TRUE; end if;
             end if;
 mspend:     if pending = {} then
 mj1:           await mgmt = "free";               \* shutdown_workers: release every exit lock, count the children
                exitLock := [p \in Pids |-> IF p \in procs THEN 1 ELSE exitLock[p]];
                nStop := Cardinality(procs); nSent := 0;
 mj2:           while nSent < nStop /\ (\E p \in procs : ~Dead(p)) do
                   \* put_nowait(None); on Full: cool down and retry (a wait for a free slot)
                   await sem > 0 \/ ~(\E p \in procs : ~Dead(p));
                   if sem > 0 then sem := sem - 1; buf := Append(buf, Sentinel); nSent := nSent + 1; end if;
                end while;
 mj3:           cqClosed := TRUE;
 mj4:           await shut = "free"; wkClosed := TRUE;
 mj5l:          await mgmt = "free"; mgmt := "M";   \* final join loop, holding the management lock
 mj5:           while procs # {} do
                   if JoinWatches /\ brokenF then
                      goto mj5k;          \* workers registered after the pool broke were never asked to stop: killed
                   elsif JoinWatches then
                      \* wait(sentinels): join the workers as they exit; one that did not exit cleanly may have left the
                      \* queue locks dirty: the others are killed (there is no pending work here)
                      await \E p \in procs : Dead(p);
                      with p \in {q \in procs : Dead(q)} do
                         procs := procs \ {p};
                         if alive[p] = "dead" then goto mj5k; end if;
                      end with;
                   else
                      with p \in procs do
                         await Dead(p) \/ (\A q \in procs : ~Dead(q));
                         if ~Dead(p) then
                            \* nobody can be joined: the manager is stuck here (a crash in this phase goes unnoticed)
                            await FALSE;
                         else procs := procs \ {p}; end if;
                      end with;
                   end if;
                end while;
                goto mj6;
 mj5k:          while procs # {} do                 \* kill_workers(): one SIGKILL + join per remaining worker
                   with p \in procs do
                      alive[p] := IF Dead(p) THEN alive[p] ELSE "dead"; procs := procs \ {p};
                   end with;
                end while;
                if CloseReaderOnKill then rdClosed := TRUE; end if;
 mj6:           mgmt := "free"; mgr := "done"; goto mdone;
             end if;
          end if;
        end while;
 mdone: skip;
end process;

process feeder = "F"
variable fobj = 0;
begin
 f0: while TRUE do
 ftake: await buf # <<>>; fobj := Head(buf); buf := Tail(buf);
 fsend: if fobj # Sentinel /\ Kind[fobj] = "bad_arg" then
            sem := sem + 1; goto ferrp;                  \* _feed: queue_sem.release() then onerror(e, obj)
        elsif fobj # Sentinel /\ Kind[fobj] = "huge" then
            \* a payload larger than the pipe buffer: write() returns once a worker reads the pipe, or fails with EPIPE
            \* when no read end is left (D21: the parent keeps its own read end open unless CloseReaderOnKill)
 fhuge:     await (pipe = <<>> /\ \E p \in Pids : Alive(p) /\ pc[p] = "wpoll") \/ (rdClosed /\ \A p \in Pids : ~Alive(p));
            if rdClosed /\ \A p \in Pids : ~Alive(p) then sem := sem + 1; goto ferrp;
            else pipe := Append(pipe, fobj); goto f0; end if;
        else
            pipe := Append(pipe, fobj); goto f0;
        end if;
 ferrp: if fobj \in pending then pending := pending \ {fobj}; fut[fobj] := "exc_pickle"; end if;
 ferrr: running := running \ {fobj};
 ferrw: await shut = "free"; if ~wkClosed then wake := wake + 1; end if;
     end while;
end process;

process worker \in Pids
variable item = 0;
begin
 w0:    await Alive(self);
 winit: await Alive(self);
        if self \in InitFails then alive[self] := "dead"; goto wend; end if;   \* returns without announcing: sentinel only
 wrl:   await Alive(self);                                  \* call_queue.get: acquire the read lock
        either await rlock = "free"; rlock := self;
        or     await HasTimeout /\ rlock # "free" /\ timeouts < MaxTimeout; timeouts := timeouts + 1; goto wtmo;
        end either;
 wpoll: await Alive(self);                                  \* holding rlock: poll(timeout)
        either await pipe # <<>>;
        or     await HasTimeout /\ pipe = <<>> /\ timeouts < MaxTimeout; timeouts := timeouts + 1;
 wrlt:         await Alive(self); rlock := "free"; goto wtmo;
        end either;
 wrecv: await Alive(self); item := Head(pipe); pipe := Tail(pipe);
        \* Queue.get: with a timeout the slot is released inside the read lock, without one after it
        if ~HasTimeout then goto wrlrel0; end if;
 wsem:  await Alive(self); sem := sem + 1;
 wrlrel: await Alive(self); rlock := "free";
        if item = Sentinel then goto wann; else goto wunl; end if;
 wrlrel0: await Alive(self); rlock := "free";
 wsem0: await Alive(self); sem := sem + 1;
        if item = Sentinel then goto wann; end if;
 wunl:  await Alive(self);
        if Kind[item] = "unload" then                        \* cannot un-pickle the task: report and exit(1)
           rq := Append(rq, <<"tb", self>>); alive[self] := "dead"; goto wend;
        end if;
 wrun:  await Alive(self); holding[self] := item; execCount[item] := execCount[item] + 1;
 wbody: await Alive(self) /\ Kind[item] # "long";
        if Kind[item] = "crash" then alive[self] := "dead"; goto wend; end if;
 wwl:   await Alive(self) /\ wlock = "free"; wlock := self;
 wsend: await Alive(self);
        if Kind[item] = "big" then rq := Append(rq, <<"part", item>>);
        else rq := Append(rq, <<"res", item>>); end if;
 wsend2: await Alive(self);
        if Kind[item] = "big" then rq := [i \in 1..Len(rq) |-> IF rq[i] = <<"part", item>> THEN <<"res", item>> ELSE rq[i]]; end if;
        holding[self] := 0;
 wwrel: await Alive(self); wlock := "free";
        \* psutil branch: the worker's memory has grown past the limit: it announces its exit like a timed-out worker
        either goto wrl;
        or     await leaks < MaxLeak; leaks := leaks + 1; goto wann;
        end either;
 wtmo:  await Alive(self);                                  \* idle timeout: leave only if nobody is spawning / shutting down
        \* acquire(block=False): fails when the lock is held -- also during the short critical sections of the manager
        \* that the specification performs as one step (pop of an exiting worker, shutdown_workers, counting children)
        either await mgmt = "free"; mgmt := self;
        or     await mgmt # "free" \/ pc["M"] \in {"mpop", "mrel", "mj1", "mj2"}; goto wrl;
        end either;
 wmrel: await Alive(self); mgmt := "free";
 wann:  await Alive(self) /\ wlock = "free"; wlock := self;  \* announce the exit: put(pid)
 wann2: await Alive(self); rq := Append(rq, <<"pid", self>>); announced[self] := TRUE;
 wann3: await Alive(self); wlock := "free";
 wexl:  await Alive(self);                                  \* exit handshake: released by the manager, or the 30 s
        either await exitLock[self] = 1;                     \* grace period expires and the worker leaves anyway
        or     await exitLock[self] # 1 /\ timeouts < MaxTimeout; timeouts := timeouts + 1;
        end either;
 wexit: await Alive(self); alive[self] := "clean";
 wend:  skip;
end process;

\* the environment: abrupt death of any live worker at any of its program points
process env = "E"
begin
 e0: while crashes < MaxCrash do
       with p \in {q \in Pids : Alive(q)} do
          alive[p] := "dead"; crashes := crashes + 1;
          hit := hit \cup (IF pc[p] = "wsend2" /\ holding[p] # 0 /\ Kind[holding[p]] = "big" THEN {"D7"} ELSE {})
                     \cup (IF mgmt = p THEN {"D14"} ELSE {})
                     \cup (IF pc[p] = "wann3" /\ ~ExitChecked THEN {"D15"} ELSE {})
                     \cup (IF pc["M"] \in {"mspend", "mj1", "mj2", "mj3", "mj4", "mj5l", "mj5", "mj5k"} /\ ~brokenF /\ ~JoinWatches THEN {"D16"} ELSE {});
       end with;
     end while;
end process;
end algorithm; *)
\* BEGIN TRANSLATION
VARIABLES pc, shutdownF, brokenF, killF, execAlive, refsDropped, globalExit, 
          pending, fut, workIds, running, sem, buf, pipe, cqClosed, rdClosed, 
          rq, wake, wkClosed, procs, alive, holding, exitLock, announced, 
          rlock, wlock, mgmt, shut, mgrStarted, mgr, unew, mnew, watch, ready, 
          msg, cur, nStop, nSent, crashes, timeouts, cancels, leaks, 
          execCount, cancelOK, hit, userDone, fop

(* define statement *)
Fresh == {p \in Pids : alive[p] = "unborn"}
Alive(p) == alive[p] = "alive"
Dead(p) == alive[p] \in {"dead", "clean"}
Terminal(t) == fut[t] \in {"new", "cancelled", "result", "exc_task", "exc_pickle", "exc_broken", "exc_shutdown"}
ShuttingDown == globalExit \/ ((~execAlive \/ shutdownF) /\ ~brokenF)
NeedSpawn == Cardinality(procs) < MaxW /\ Fresh # {}
Busy == {p \in Pids : Alive(p) /\ holding[p] # 0}

VARIABLES ut, fobj, item

vars == << pc, shutdownF, brokenF, killF, execAlive, refsDropped, globalExit, 
           pending, fut, workIds, running, sem, buf, pipe, cqClosed, rdClosed, 
           rq, wake, wkClosed, procs, alive, holding, exitLock, announced, 
           rlock, wlock, mgmt, shut, mgrStarted, mgr, unew, mnew, watch, 
           ready, msg, cur, nStop, nSent, crashes, timeouts, cancels, leaks, 
           execCount, cancelOK, hit, userDone, fop, ut, fobj, item >>

ProcSet == {"U"} \cup {"C"} \cup {"M"} \cup {"F"} \cup (Pids) \cup {"E"}

Init == (* Global variables *)
        /\ shutdownF = FALSE
        /\ brokenF = FALSE
        /\ killF = FALSE
        /\ execAlive = TRUE
        /\ refsDropped = FALSE
        /\ globalExit = FALSE
        /\ pending = {}
        /\ fut = [t \in Tasks |-> "new"]
        /\ workIds = <<>>
        /\ running = {}
        /\ sem = QSize
        /\ buf = <<>>
        /\ pipe = <<>>
        /\ cqClosed = FALSE
        /\ rdClosed = FALSE
        /\ rq = <<>>
        /\ wake = 0
        /\ wkClosed = FALSE
        /\ procs = {}
        /\ alive = [p \in Pids |-> "unborn"]
        /\ holding = [p \in Pids |-> 0]
        /\ exitLock = [p \in Pids |-> 0]
        /\ announced = [p \in Pids |-> FALSE]
        /\ rlock = "free"
        /\ wlock = "free"
        /\ mgmt = "free"
        /\ shut = "free"
        /\ mgrStarted = FALSE
        /\ mgr = "run"
        /\ unew = 0
        /\ mnew = 0
        /\ watch = {}
        /\ ready = "none"
        /\ msg = <<>>
        /\ cur = 0
        /\ nStop = 0
        /\ nSent = 0
        /\ crashes = 0
        /\ timeouts = 0
        /\ cancels = 0
        /\ leaks = 0
        /\ execCount = [t \in Tasks |-> 0]
        /\ cancelOK = {}
        /\ hit = {}
        /\ userDone = FALSE
        /\ fop = "none"
        (* Process user *)
        /\ ut = 1
        (* Process feeder *)
        /\ fobj = 0
        (* Process worker *)
        /\ item = [self \in Pids |-> 0]
        /\ pc = [self \in ProcSet |-> CASE self = "U" -> "u0"
                                        [] self = "C" -> "c0"
                                        [] self = "M" -> "m0"
                                        [] self = "F" -> "f0"
                                        [] self \in Pids -> "w0"
                                        [] self = "E" -> "e0"]

u0 == /\ pc["U"] = "u0"
      /\ IF ut <= K
            THEN /\ pc' = [pc EXCEPT !["U"] = "ucheck"]
            ELSE /\ pc' = [pc EXCEPT !["U"] = "uf"]
      /\ UNCHANGED << shutdownF, brokenF, killF, execAlive, refsDropped, 
                      globalExit, pending, fut, workIds, running, sem, buf, 
                      pipe, cqClosed, rdClosed, rq, wake, wkClosed, procs, 
                      alive, holding, exitLock, announced, rlock, wlock, mgmt, 
                      shut, mgrStarted, mgr, unew, mnew, watch, ready, msg, 
                      cur, nStop, nSent, crashes, timeouts, cancels, leaks, 
                      execCount, cancelOK, hit, userDone, fop, ut, fobj, item >>

ucheck == /\ pc["U"] = "ucheck"
          /\ shut = "free"
          /\ IF shutdownF \/ brokenF \/ globalExit
                THEN /\ ut' = K + 1
                     /\ pc' = [pc EXCEPT !["U"] = "u0"]
                     /\ shut' = shut
                ELSE /\ shut' = "U"
                     /\ pc' = [pc EXCEPT !["U"] = "uenq"]
                     /\ ut' = ut
          /\ UNCHANGED << shutdownF, brokenF, killF, execAlive, refsDropped, 
                          globalExit, pending, fut, workIds, running, sem, buf, 
                          pipe, cqClosed, rdClosed, rq, wake, wkClosed, procs, 
                          alive, holding, exitLock, announced, rlock, wlock, 
                          mgmt, mgrStarted, mgr, unew, mnew, watch, ready, msg, 
                          cur, nStop, nSent, crashes, timeouts, cancels, leaks, 
                          execCount, cancelOK, hit, userDone, fop, fobj, item >>

uenq == /\ pc["U"] = "uenq"
        /\ pending' = (pending \cup {ut})
        /\ fut' = [fut EXCEPT ![ut] = "pending"]
        /\ workIds' = Append(workIds, ut)
        /\ pc' = [pc EXCEPT !["U"] = "uwake1"]
        /\ UNCHANGED << shutdownF, brokenF, killF, execAlive, refsDropped, 
                        globalExit, running, sem, buf, pipe, cqClosed, 
                        rdClosed, rq, wake, wkClosed, procs, alive, holding, 
                        exitLock, announced, rlock, wlock, mgmt, shut, 
                        mgrStarted, mgr, unew, mnew, watch, ready, msg, cur, 
                        nStop, nSent, crashes, timeouts, cancels, leaks, 
                        execCount, cancelOK, hit, userDone, fop, ut, fobj, 
                        item >>

uwake1 == /\ pc["U"] = "uwake1"
          /\ IF ~WakeAfterSpawn
                THEN /\ wake' = wake + 1
                ELSE /\ TRUE
                     /\ wake' = wake
          /\ pc' = [pc EXCEPT !["U"] = "ulock"]
          /\ UNCHANGED << shutdownF, brokenF, killF, execAlive, refsDropped, 
                          globalExit, pending, fut, workIds, running, sem, buf, 
                          pipe, cqClosed, rdClosed, rq, wkClosed, procs, alive, 
                          holding, exitLock, announced, rlock, wlock, mgmt, 
                          shut, mgrStarted, mgr, unew, mnew, watch, ready, msg, 
                          cur, nStop, nSent, crashes, timeouts, cancels, leaks, 
                          execCount, cancelOK, hit, userDone, fop, ut, fobj, 
                          item >>

ulock == /\ pc["U"] = "ulock"
         /\ mgmt = "free"
         /\ mgmt' = "U"
         /\ pc' = [pc EXCEPT !["U"] = "uspawn"]
         /\ UNCHANGED << shutdownF, brokenF, killF, execAlive, refsDropped, 
                         globalExit, pending, fut, workIds, running, sem, buf, 
                         pipe, cqClosed, rdClosed, rq, wake, wkClosed, procs, 
                         alive, holding, exitLock, announced, rlock, wlock, 
                         shut, mgrStarted, mgr, unew, mnew, watch, ready, msg, 
                         cur, nStop, nSent, crashes, timeouts, cancels, leaks, 
                         execCount, cancelOK, hit, userDone, fop, ut, fobj, 
                         item >>

uspawn == /\ pc["U"] = "uspawn"
          /\ IF NeedSpawn
                THEN /\ \E p \in Fresh:
                          /\ alive' = [alive EXCEPT ![p] = "alive"]
                          /\ unew' = p
                     /\ pc' = [pc EXCEPT !["U"] = "ureg"]
                ELSE /\ pc' = [pc EXCEPT !["U"] = "ustart"]
                     /\ UNCHANGED << alive, unew >>
          /\ UNCHANGED << shutdownF, brokenF, killF, execAlive, refsDropped, 
                          globalExit, pending, fut, workIds, running, sem, buf, 
                          pipe, cqClosed, rdClosed, rq, wake, wkClosed, procs, 
                          holding, exitLock, announced, rlock, wlock, mgmt, 
                          shut, mgrStarted, mgr, mnew, watch, ready, msg, cur, 
                          nStop, nSent, crashes, timeouts, cancels, leaks, 
                          execCount, cancelOK, hit, userDone, fop, ut, fobj, 
                          item >>

ureg == /\ pc["U"] = "ureg"
        /\ procs' = (procs \cup {unew})
        /\ pc' = [pc EXCEPT !["U"] = "uspawn"]
        /\ UNCHANGED << shutdownF, brokenF, killF, execAlive, refsDropped, 
                        globalExit, pending, fut, workIds, running, sem, buf, 
                        pipe, cqClosed, rdClosed, rq, wake, wkClosed, alive, 
                        holding, exitLock, announced, rlock, wlock, mgmt, shut, 
                        mgrStarted, mgr, unew, mnew, watch, ready, msg, cur, 
                        nStop, nSent, crashes, timeouts, cancels, leaks, 
                        execCount, cancelOK, hit, userDone, fop, ut, fobj, 
                        item >>

ustart == /\ pc["U"] = "ustart"
          /\ mgrStarted' = TRUE
          /\ pc' = [pc EXCEPT !["U"] = "uunlock"]
          /\ UNCHANGED << shutdownF, brokenF, killF, execAlive, refsDropped, 
                          globalExit, pending, fut, workIds, running, sem, buf, 
                          pipe, cqClosed, rdClosed, rq, wake, wkClosed, procs, 
                          alive, holding, exitLock, announced, rlock, wlock, 
                          mgmt, shut, mgr, unew, mnew, watch, ready, msg, cur, 
                          nStop, nSent, crashes, timeouts, cancels, leaks, 
                          execCount, cancelOK, hit, userDone, fop, ut, fobj, 
                          item >>

uunlock == /\ pc["U"] = "uunlock"
           /\ mgmt' = "free"
           /\ pc' = [pc EXCEPT !["U"] = "uwake2"]
           /\ UNCHANGED << shutdownF, brokenF, killF, execAlive, refsDropped, 
                           globalExit, pending, fut, workIds, running, sem, 
                           buf, pipe, cqClosed, rdClosed, rq, wake, wkClosed, 
                           procs, alive, holding, exitLock, announced, rlock, 
                           wlock, shut, mgrStarted, mgr, unew, mnew, watch, 
                           ready, msg, cur, nStop, nSent, crashes, timeouts, 
                           cancels, leaks, execCount, cancelOK, hit, userDone, 
                           fop, ut, fobj, item >>

uwake2 == /\ pc["U"] = "uwake2"
          /\ IF WakeAfterSpawn
                THEN /\ wake' = wake + 1
                ELSE /\ TRUE
                     /\ wake' = wake
          /\ pc' = [pc EXCEPT !["U"] = "uret"]
          /\ UNCHANGED << shutdownF, brokenF, killF, execAlive, refsDropped, 
                          globalExit, pending, fut, workIds, running, sem, buf, 
                          pipe, cqClosed, rdClosed, rq, wkClosed, procs, alive, 
                          holding, exitLock, announced, rlock, wlock, mgmt, 
                          shut, mgrStarted, mgr, unew, mnew, watch, ready, msg, 
                          cur, nStop, nSent, crashes, timeouts, cancels, leaks, 
                          execCount, cancelOK, hit, userDone, fop, ut, fobj, 
                          item >>

uret == /\ pc["U"] = "uret"
        /\ shut' = "free"
        /\ ut' = ut + 1
        /\ pc' = [pc EXCEPT !["U"] = "u0"]
        /\ UNCHANGED << shutdownF, brokenF, killF, execAlive, refsDropped, 
                        globalExit, pending, fut, workIds, running, sem, buf, 
                        pipe, cqClosed, rdClosed, rq, wake, wkClosed, procs, 
                        alive, holding, exitLock, announced, rlock, wlock, 
                        mgmt, mgrStarted, mgr, unew, mnew, watch, ready, msg, 
                        cur, nStop, nSent, crashes, timeouts, cancels, leaks, 
                        execCount, cancelOK, hit, userDone, fop, fobj, item >>

uf == /\ pc["U"] = "uf"
      /\ \E op \in FinalOps:
           fop' = op
      /\ pc' = [pc EXCEPT !["U"] = "uf2"]
      /\ UNCHANGED << shutdownF, brokenF, killF, execAlive, refsDropped, 
                      globalExit, pending, fut, workIds, running, sem, buf, 
                      pipe, cqClosed, rdClosed, rq, wake, wkClosed, procs, 
                      alive, holding, exitLock, announced, rlock, wlock, mgmt, 
                      shut, mgrStarted, mgr, unew, mnew, watch, ready, msg, 
                      cur, nStop, nSent, crashes, timeouts, cancels, leaks, 
                      execCount, cancelOK, hit, userDone, ut, fobj, item >>

uf2 == /\ pc["U"] = "uf2"
       /\ IF fop \in {"shutdown_nowait", "shutdown_wait", "kill"}
             THEN /\ shut = "free"
                  /\ shutdownF' = TRUE
                  /\ killF' = (fop = "kill")
                  /\ pc' = [pc EXCEPT !["U"] = "ufw"]
                  /\ UNCHANGED globalExit
             ELSE /\ IF fop = "del"
                        THEN /\ pc' = [pc EXCEPT !["U"] = "udel"]
                             /\ UNCHANGED globalExit
                        ELSE /\ IF fop = "exit"
                                   THEN /\ globalExit' = TRUE
                                        /\ pc' = [pc EXCEPT !["U"] = "uexw"]
                                   ELSE /\ pc' = [pc EXCEPT !["U"] = "uend"]
                                        /\ UNCHANGED globalExit
                  /\ UNCHANGED << shutdownF, killF >>
       /\ UNCHANGED << brokenF, execAlive, refsDropped, pending, fut, workIds, 
                       running, sem, buf, pipe, cqClosed, rdClosed, rq, wake, 
                       wkClosed, procs, alive, holding, exitLock, announced, 
                       rlock, wlock, mgmt, shut, mgrStarted, mgr, unew, mnew, 
                       watch, ready, msg, cur, nStop, nSent, crashes, timeouts, 
                       cancels, leaks, execCount, cancelOK, hit, userDone, fop, 
                       ut, fobj, item >>

ufw == /\ pc["U"] = "ufw"
       /\ shut = "free"
       /\ IF ~wkClosed
             THEN /\ wake' = wake + 1
             ELSE /\ TRUE
                  /\ wake' = wake
       /\ IF fop = "shutdown_nowait" /\ ~KeepRefs /\ mgr = "run" /\ mgrStarted
             THEN /\ refsDropped' = TRUE
             ELSE /\ TRUE
                  /\ UNCHANGED refsDropped
       /\ pc' = [pc EXCEPT !["U"] = "ujoin"]
       /\ UNCHANGED << shutdownF, brokenF, killF, execAlive, globalExit, 
                       pending, fut, workIds, running, sem, buf, pipe, 
                       cqClosed, rdClosed, rq, wkClosed, procs, alive, holding, 
                       exitLock, announced, rlock, wlock, mgmt, shut, 
                       mgrStarted, mgr, unew, mnew, watch, ready, msg, cur, 
                       nStop, nSent, crashes, timeouts, cancels, leaks, 
                       execCount, cancelOK, hit, userDone, fop, ut, fobj, item >>

ujoin == /\ pc["U"] = "ujoin"
         /\ IF fop # "shutdown_nowait" /\ mgrStarted
               THEN /\ mgr # "run"
               ELSE /\ TRUE
         /\ pc' = [pc EXCEPT !["U"] = "uend"]
         /\ UNCHANGED << shutdownF, brokenF, killF, execAlive, refsDropped, 
                         globalExit, pending, fut, workIds, running, sem, buf, 
                         pipe, cqClosed, rdClosed, rq, wake, wkClosed, procs, 
                         alive, holding, exitLock, announced, rlock, wlock, 
                         mgmt, shut, mgrStarted, mgr, unew, mnew, watch, ready, 
                         msg, cur, nStop, nSent, crashes, timeouts, cancels, 
                         leaks, execCount, cancelOK, hit, userDone, fop, ut, 
                         fobj, item >>

udel == /\ pc["U"] = "udel"
        /\ shut = "free"
        /\ execAlive' = FALSE
        /\ IF ~wkClosed
              THEN /\ wake' = wake + 1
              ELSE /\ TRUE
                   /\ wake' = wake
        /\ pc' = [pc EXCEPT !["U"] = "uend"]
        /\ UNCHANGED << shutdownF, brokenF, killF, refsDropped, globalExit, 
                        pending, fut, workIds, running, sem, buf, pipe, 
                        cqClosed, rdClosed, rq, wkClosed, procs, alive, 
                        holding, exitLock, announced, rlock, wlock, mgmt, shut, 
                        mgrStarted, mgr, unew, mnew, watch, ready, msg, cur, 
                        nStop, nSent, crashes, timeouts, cancels, leaks, 
                        execCount, cancelOK, hit, userDone, fop, ut, fobj, 
                        item >>

uexw == /\ pc["U"] = "uexw"
        /\ shut = "free"
        /\ IF ~wkClosed
              THEN /\ wake' = wake + 1
              ELSE /\ TRUE
                   /\ wake' = wake
        /\ pc' = [pc EXCEPT !["U"] = "uexj"]
        /\ UNCHANGED << shutdownF, brokenF, killF, execAlive, refsDropped, 
                        globalExit, pending, fut, workIds, running, sem, buf, 
                        pipe, cqClosed, rdClosed, rq, wkClosed, procs, alive, 
                        holding, exitLock, announced, rlock, wlock, mgmt, shut, 
                        mgrStarted, mgr, unew, mnew, watch, ready, msg, cur, 
                        nStop, nSent, crashes, timeouts, cancels, leaks, 
                        execCount, cancelOK, hit, userDone, fop, ut, fobj, 
                        item >>

uexj == /\ pc["U"] = "uexj"
        /\ IF mgrStarted
              THEN /\ mgr # "run"
              ELSE /\ TRUE
        /\ pc' = [pc EXCEPT !["U"] = "uend"]
        /\ UNCHANGED << shutdownF, brokenF, killF, execAlive, refsDropped, 
                        globalExit, pending, fut, workIds, running, sem, buf, 
                        pipe, cqClosed, rdClosed, rq, wake, wkClosed, procs, 
                        alive, holding, exitLock, announced, rlock, wlock, 
                        mgmt, shut, mgrStarted, mgr, unew, mnew, watch, ready, 
                        msg, cur, nStop, nSent, crashes, timeouts, cancels, 
                        leaks, execCount, cancelOK, hit, userDone, fop, ut, 
                        fobj, item >>

uend == /\ pc["U"] = "uend"
        /\ userDone' = TRUE
        /\ pc' = [pc EXCEPT !["U"] = "Done"]
        /\ UNCHANGED << shutdownF, brokenF, killF, execAlive, refsDropped, 
                        globalExit, pending, fut, workIds, running, sem, buf, 
                        pipe, cqClosed, rdClosed, rq, wake, wkClosed, procs, 
                        alive, holding, exitLock, announced, rlock, wlock, 
                        mgmt, shut, mgrStarted, mgr, unew, mnew, watch, ready, 
                        msg, cur, nStop, nSent, crashes, timeouts, cancels, 
                        leaks, execCount, cancelOK, hit, fop, ut, fobj, item >>

user == u0 \/ ucheck \/ uenq \/ uwake1 \/ ulock \/ uspawn \/ ureg \/ ustart
           \/ uunlock \/ uwake2 \/ uret \/ uf \/ uf2 \/ ufw \/ ujoin
           \/ udel \/ uexw \/ uexj \/ uend

c0 == /\ pc["C"] = "c0"
      /\ IF cancels < MaxCancel
            THEN /\ \E t \in {x \in Tasks : fut[x] = "pending"}:
                      /\ fut' = [fut EXCEPT ![t] = "cancelled"]
                      /\ cancelOK' = (cancelOK \cup {t})
                      /\ cancels' = cancels + 1
                 /\ pc' = [pc EXCEPT !["C"] = "c0"]
            ELSE /\ pc' = [pc EXCEPT !["C"] = "Done"]
                 /\ UNCHANGED << fut, cancels, cancelOK >>
      /\ UNCHANGED << shutdownF, brokenF, killF, execAlive, refsDropped, 
                      globalExit, pending, workIds, running, sem, buf, pipe, 
                      cqClosed, rdClosed, rq, wake, wkClosed, procs, alive, 
                      holding, exitLock, announced, rlock, wlock, mgmt, shut, 
                      mgrStarted, mgr, unew, mnew, watch, ready, msg, cur, 
                      nStop, nSent, crashes, timeouts, leaks, execCount, hit, 
                      userDone, fop, ut, fobj, item >>

canceller == c0

m0 == /\ pc["M"] = "m0"
      /\ mgrStarted
      /\ pc' = [pc EXCEPT !["M"] = "mloop"]
      /\ UNCHANGED << shutdownF, brokenF, killF, execAlive, refsDropped, 
                      globalExit, pending, fut, workIds, running, sem, buf, 
                      pipe, cqClosed, rdClosed, rq, wake, wkClosed, procs, 
                      alive, holding, exitLock, announced, rlock, wlock, mgmt, 
                      shut, mgrStarted, mgr, unew, mnew, watch, ready, msg, 
                      cur, nStop, nSent, crashes, timeouts, cancels, leaks, 
                      execCount, cancelOK, hit, userDone, fop, ut, fobj, item >>

mloop == /\ pc["M"] = "mloop"
         /\ pc' = [pc EXCEPT !["M"] = "mfull"]
         /\ UNCHANGED << shutdownF, brokenF, killF, execAlive, refsDropped, 
                         globalExit, pending, fut, workIds, running, sem, buf, 
                         pipe, cqClosed, rdClosed, rq, wake, wkClosed, procs, 
                         alive, holding, exitLock, announced, rlock, wlock, 
                         mgmt, shut, mgrStarted, mgr, unew, mnew, watch, ready, 
                         msg, cur, nStop, nSent, crashes, timeouts, cancels, 
                         leaks, execCount, cancelOK, hit, userDone, fop, ut, 
                         fobj, item >>

mfull == /\ pc["M"] = "mfull"
         /\ IF sem = 0 \/ workIds = <<>>
               THEN /\ pc' = [pc EXCEPT !["M"] = "msnap"]
               ELSE /\ pc' = [pc EXCEPT !["M"] = "mtake"]
         /\ UNCHANGED << shutdownF, brokenF, killF, execAlive, refsDropped, 
                         globalExit, pending, fut, workIds, running, sem, buf, 
                         pipe, cqClosed, rdClosed, rq, wake, wkClosed, procs, 
                         alive, holding, exitLock, announced, rlock, wlock, 
                         mgmt, shut, mgrStarted, mgr, unew, mnew, watch, ready, 
                         msg, cur, nStop, nSent, crashes, timeouts, cancels, 
                         leaks, execCount, cancelOK, hit, userDone, fop, ut, 
                         fobj, item >>

mtake == /\ pc["M"] = "mtake"
         /\ cur' = Head(workIds)
         /\ workIds' = Tail(workIds)
         /\ pc' = [pc EXCEPT !["M"] = "mrun"]
         /\ UNCHANGED << shutdownF, brokenF, killF, execAlive, refsDropped, 
                         globalExit, pending, fut, running, sem, buf, pipe, 
                         cqClosed, rdClosed, rq, wake, wkClosed, procs, alive, 
                         holding, exitLock, announced, rlock, wlock, mgmt, 
                         shut, mgrStarted, mgr, unew, mnew, watch, ready, msg, 
                         nStop, nSent, crashes, timeouts, cancels, leaks, 
                         execCount, cancelOK, hit, userDone, fop, ut, fobj, 
                         item >>

mrun == /\ pc["M"] = "mrun"
        /\ IF fut[cur] = "cancelled"
              THEN /\ pending' = pending \ {cur}
                   /\ IF CancelWakes
                         THEN /\ wake' = wake + 1
                         ELSE /\ TRUE
                              /\ wake' = wake
                   /\ pc' = [pc EXCEPT !["M"] = "mfull"]
                   /\ fut' = fut
              ELSE /\ fut' = [fut EXCEPT ![cur] = "running"]
                   /\ pc' = [pc EXCEPT !["M"] = "mradd"]
                   /\ UNCHANGED << pending, wake >>
        /\ UNCHANGED << shutdownF, brokenF, killF, execAlive, refsDropped, 
                        globalExit, workIds, running, sem, buf, pipe, cqClosed, 
                        rdClosed, rq, wkClosed, procs, alive, holding, 
                        exitLock, announced, rlock, wlock, mgmt, shut, 
                        mgrStarted, mgr, unew, mnew, watch, ready, msg, cur, 
                        nStop, nSent, crashes, timeouts, cancels, leaks, 
                        execCount, cancelOK, hit, userDone, fop, ut, fobj, 
                        item >>

mradd == /\ pc["M"] = "mradd"
         /\ running' = (running \cup {cur})
         /\ pc' = [pc EXCEPT !["M"] = "mput"]
         /\ UNCHANGED << shutdownF, brokenF, killF, execAlive, refsDropped, 
                         globalExit, pending, fut, workIds, sem, buf, pipe, 
                         cqClosed, rdClosed, rq, wake, wkClosed, procs, alive, 
                         holding, exitLock, announced, rlock, wlock, mgmt, 
                         shut, mgrStarted, mgr, unew, mnew, watch, ready, msg, 
                         cur, nStop, nSent, crashes, timeouts, cancels, leaks, 
                         execCount, cancelOK, hit, userDone, fop, ut, fobj, 
                         item >>

mput == /\ pc["M"] = "mput"
        /\ sem > 0
        /\ sem' = sem - 1
        /\ buf' = Append(buf, cur)
        /\ pc' = [pc EXCEPT !["M"] = "mfull"]
        /\ UNCHANGED << shutdownF, brokenF, killF, execAlive, refsDropped, 
                        globalExit, pending, fut, workIds, running, pipe, 
                        cqClosed, rdClosed, rq, wake, wkClosed, procs, alive, 
                        holding, exitLock, announced, rlock, wlock, mgmt, shut, 
                        mgrStarted, mgr, unew, mnew, watch, ready, msg, cur, 
                        nStop, nSent, crashes, timeouts, cancels, leaks, 
                        execCount, cancelOK, hit, userDone, fop, ut, fobj, 
                        item >>

msnap == /\ pc["M"] = "msnap"
         /\ watch' = procs
         /\ pc' = [pc EXCEPT !["M"] = "mwait"]
         /\ UNCHANGED << shutdownF, brokenF, killF, execAlive, refsDropped, 
                         globalExit, pending, fut, workIds, running, sem, buf, 
                         pipe, cqClosed, rdClosed, rq, wake, wkClosed, procs, 
                         alive, holding, exitLock, announced, rlock, wlock, 
                         mgmt, shut, mgrStarted, mgr, unew, mnew, ready, msg, 
                         cur, nStop, nSent, crashes, timeouts, cancels, leaks, 
                         execCount, cancelOK, hit, userDone, fop, ut, fobj, 
                         item >>

mwait == /\ pc["M"] = "mwait"
         /\ rq # <<>> \/ wake > 0 \/ (\E p \in watch : Dead(p))
         /\ IF rq # <<>>
               THEN /\ ready' = "res"
               ELSE /\ IF wake > 0
                          THEN /\ ready' = "wake"
                          ELSE /\ ready' = "sent"
         /\ pc' = [pc EXCEPT !["M"] = "mrecv"]
         /\ UNCHANGED << shutdownF, brokenF, killF, execAlive, refsDropped, 
                         globalExit, pending, fut, workIds, running, sem, buf, 
                         pipe, cqClosed, rdClosed, rq, wake, wkClosed, procs, 
                         alive, holding, exitLock, announced, rlock, wlock, 
                         mgmt, shut, mgrStarted, mgr, unew, mnew, watch, msg, 
                         cur, nStop, nSent, crashes, timeouts, cancels, leaks, 
                         execCount, cancelOK, hit, userDone, fop, ut, fobj, 
                         item >>

mrecv == /\ pc["M"] = "mrecv"
         /\ IF ready = "res"
               THEN /\ Head(rq)[1] # "part"
                    /\ msg' = Head(rq)
                    /\ rq' = Tail(rq)
               ELSE /\ IF ready = "wake"
                          THEN /\ msg' = <<"wake", 0>>
                          ELSE /\ msg' = <<"broken", 0>>
                    /\ rq' = rq
         /\ pc' = [pc EXCEPT !["M"] = "mclear"]
         /\ UNCHANGED << shutdownF, brokenF, killF, execAlive, refsDropped, 
                         globalExit, pending, fut, workIds, running, sem, buf, 
                         pipe, cqClosed, rdClosed, wake, wkClosed, procs, 
                         alive, holding, exitLock, announced, rlock, wlock, 
                         mgmt, shut, mgrStarted, mgr, unew, mnew, watch, ready, 
                         cur, nStop, nSent, crashes, timeouts, cancels, leaks, 
                         execCount, cancelOK, hit, userDone, fop, ut, fobj, 
                         item >>

mclear == /\ pc["M"] = "mclear"
          /\ wake' = 0
          /\ pc' = [pc EXCEPT !["M"] = "mp"]
          /\ UNCHANGED << shutdownF, brokenF, killF, execAlive, refsDropped, 
                          globalExit, pending, fut, workIds, running, sem, buf, 
                          pipe, cqClosed, rdClosed, rq, wkClosed, procs, alive, 
                          holding, exitLock, announced, rlock, wlock, mgmt, 
                          shut, mgrStarted, mgr, unew, mnew, watch, ready, msg, 
                          cur, nStop, nSent, crashes, timeouts, cancels, leaks, 
                          execCount, cancelOK, hit, userDone, fop, ut, fobj, 
                          item >>

mp == /\ pc["M"] = "mp"
      /\ IF msg[1] \in {"broken", "tb"}
            THEN /\ pc' = [pc EXCEPT !["M"] = "mbflag"]
            ELSE /\ IF msg[1] = "res"
                       THEN /\ pc' = [pc EXCEPT !["M"] = "mres"]
                       ELSE /\ IF msg[1] = "pid"
                                  THEN /\ pc' = [pc EXCEPT !["M"] = "mpop"]
                                  ELSE /\ pc' = [pc EXCEPT !["M"] = "msd"]
      /\ UNCHANGED << shutdownF, brokenF, killF, execAlive, refsDropped, 
                      globalExit, pending, fut, workIds, running, sem, buf, 
                      pipe, cqClosed, rdClosed, rq, wake, wkClosed, procs, 
                      alive, holding, exitLock, announced, rlock, wlock, mgmt, 
                      shut, mgrStarted, mgr, unew, mnew, watch, ready, msg, 
                      cur, nStop, nSent, crashes, timeouts, cancels, leaks, 
                      execCount, cancelOK, hit, userDone, fop, ut, fobj, item >>

mbflag == /\ pc["M"] = "mbflag"
          /\ shut = "free"
          /\ brokenF' = TRUE
          /\ shutdownF' = TRUE
          /\ pc' = [pc EXCEPT !["M"] = "mbfail"]
          /\ UNCHANGED << killF, execAlive, refsDropped, globalExit, pending, 
                          fut, workIds, running, sem, buf, pipe, cqClosed, 
                          rdClosed, rq, wake, wkClosed, procs, alive, holding, 
                          exitLock, announced, rlock, wlock, mgmt, shut, 
                          mgrStarted, mgr, unew, mnew, watch, ready, msg, cur, 
                          nStop, nSent, crashes, timeouts, cancels, leaks, 
                          execCount, cancelOK, hit, userDone, fop, ut, fobj, 
                          item >>

mbfail == /\ pc["M"] = "mbfail"
          /\ IF pending # {}
                THEN /\ \E t \in pending:
                          IF fut[t] = "cancelled" /\ ~SafeFail
                             THEN /\ mgr' = "crashed"
                                  /\ pc' = [pc EXCEPT !["M"] = "mdone"]
                                  /\ UNCHANGED << pending, fut >>
                             ELSE /\ fut' = [fut EXCEPT ![t] = IF fut[t] = "cancelled" THEN "cancelled" ELSE "exc_broken"]
                                  /\ pending' = pending \ {t}
                                  /\ pc' = [pc EXCEPT !["M"] = "mbfail"]
                                  /\ mgr' = mgr
                ELSE /\ pc' = [pc EXCEPT !["M"] = "mbkill"]
                     /\ UNCHANGED << pending, fut, mgr >>
          /\ UNCHANGED << shutdownF, brokenF, killF, execAlive, refsDropped, 
                          globalExit, workIds, running, sem, buf, pipe, 
                          cqClosed, rdClosed, rq, wake, wkClosed, procs, alive, 
                          holding, exitLock, announced, rlock, wlock, mgmt, 
                          shut, mgrStarted, unew, mnew, watch, ready, msg, cur, 
                          nStop, nSent, crashes, timeouts, cancels, leaks, 
                          execCount, cancelOK, hit, userDone, fop, ut, fobj, 
                          item >>

mbkill == /\ pc["M"] = "mbkill"
          /\ IF procs # {}
                THEN /\ \E p \in procs:
                          /\ IF Alive(p) /\ mgmt = p
                                THEN /\ hit' = (hit \cup {"D14"})
                                ELSE /\ TRUE
                                     /\ hit' = hit
                          /\ alive' = [alive EXCEPT ![p] = IF Dead(p) THEN alive[p] ELSE "dead"]
                          /\ procs' = procs \ {p}
                     /\ pc' = [pc EXCEPT !["M"] = "mbkill"]
                     /\ UNCHANGED rdClosed
                ELSE /\ IF CloseReaderOnKill
                           THEN /\ rdClosed' = TRUE
                           ELSE /\ TRUE
                                /\ UNCHANGED rdClosed
                     /\ pc' = [pc EXCEPT !["M"] = "mj1"]
                     /\ UNCHANGED << procs, alive, hit >>
          /\ UNCHANGED << shutdownF, brokenF, killF, execAlive, refsDropped, 
                          globalExit, pending, fut, workIds, running, sem, buf, 
                          pipe, cqClosed, rq, wake, wkClosed, holding, 
                          exitLock, announced, rlock, wlock, mgmt, shut, 
                          mgrStarted, mgr, unew, mnew, watch, ready, msg, cur, 
                          nStop, nSent, crashes, timeouts, cancels, leaks, 
                          execCount, cancelOK, userDone, fop, ut, fobj, item >>

mres == /\ pc["M"] = "mres"
        /\ IF msg[2] \in pending
              THEN /\ pending' = pending \ {msg[2]}
                   /\ fut' = [fut EXCEPT ![msg[2]] = IF Kind[msg[2]] = "unload" THEN fut[msg[2]] ELSE "result"]
                   /\ pc' = [pc EXCEPT !["M"] = "mrunrm"]
              ELSE /\ pc' = [pc EXCEPT !["M"] = "msd"]
                   /\ UNCHANGED << pending, fut >>
        /\ UNCHANGED << shutdownF, brokenF, killF, execAlive, refsDropped, 
                        globalExit, workIds, running, sem, buf, pipe, cqClosed, 
                        rdClosed, rq, wake, wkClosed, procs, alive, holding, 
                        exitLock, announced, rlock, wlock, mgmt, shut, 
                        mgrStarted, mgr, unew, mnew, watch, ready, msg, cur, 
                        nStop, nSent, crashes, timeouts, cancels, leaks, 
                        execCount, cancelOK, hit, userDone, fop, ut, fobj, 
                        item >>

mrunrm == /\ pc["M"] = "mrunrm"
          /\ running' = running \ {msg[2]}
          /\ pc' = [pc EXCEPT !["M"] = "msd"]
          /\ UNCHANGED << shutdownF, brokenF, killF, execAlive, refsDropped, 
                          globalExit, pending, fut, workIds, sem, buf, pipe, 
                          cqClosed, rdClosed, rq, wake, wkClosed, procs, alive, 
                          holding, exitLock, announced, rlock, wlock, mgmt, 
                          shut, mgrStarted, mgr, unew, mnew, watch, ready, msg, 
                          cur, nStop, nSent, crashes, timeouts, cancels, leaks, 
                          execCount, cancelOK, hit, userDone, fop, ut, fobj, 
                          item >>

mpop == /\ pc["M"] = "mpop"
        /\ mgmt = "free"
        /\ procs' = procs \ {msg[2]}
        /\ pc' = [pc EXCEPT !["M"] = "mrel"]
        /\ UNCHANGED << shutdownF, brokenF, killF, execAlive, refsDropped, 
                        globalExit, pending, fut, workIds, running, sem, buf, 
                        pipe, cqClosed, rdClosed, rq, wake, wkClosed, alive, 
                        holding, exitLock, announced, rlock, wlock, mgmt, shut, 
                        mgrStarted, mgr, unew, mnew, watch, ready, msg, cur, 
                        nStop, nSent, crashes, timeouts, cancels, leaks, 
                        execCount, cancelOK, hit, userDone, fop, ut, fobj, 
                        item >>

mrel == /\ pc["M"] = "mrel"
        /\ exitLock' = [exitLock EXCEPT ![msg[2]] = 1]
        /\ pc' = [pc EXCEPT !["M"] = "mjoin"]
        /\ UNCHANGED << shutdownF, brokenF, killF, execAlive, refsDropped, 
                        globalExit, pending, fut, workIds, running, sem, buf, 
                        pipe, cqClosed, rdClosed, rq, wake, wkClosed, procs, 
                        alive, holding, announced, rlock, wlock, mgmt, shut, 
                        mgrStarted, mgr, unew, mnew, watch, ready, msg, cur, 
                        nStop, nSent, crashes, timeouts, cancels, leaks, 
                        execCount, cancelOK, hit, userDone, fop, ut, fobj, 
                        item >>

mjoin == /\ pc["M"] = "mjoin"
         /\ Dead(msg[2])
         /\ IF ExitChecked /\ alive[msg[2]] = "dead"
               THEN /\ msg' = <<"broken", 0>>
                    /\ pc' = [pc EXCEPT !["M"] = "mbflag"]
               ELSE /\ pc' = [pc EXCEPT !["M"] = "mdecide"]
                    /\ msg' = msg
         /\ UNCHANGED << shutdownF, brokenF, killF, execAlive, refsDropped, 
                         globalExit, pending, fut, workIds, running, sem, buf, 
                         pipe, cqClosed, rdClosed, rq, wake, wkClosed, procs, 
                         alive, holding, exitLock, announced, rlock, wlock, 
                         mgmt, shut, mgrStarted, mgr, unew, mnew, watch, ready, 
                         cur, nStop, nSent, crashes, timeouts, cancels, leaks, 
                         execCount, cancelOK, hit, userDone, fop, ut, fobj, 
                         item >>

mdecide == /\ pc["M"] = "mdecide"
           /\ IF (Cardinality(pending) > Cardinality(running) \/ Cardinality(running) > Cardinality(procs))
                 THEN /\ IF ~execAlive
                            THEN /\ hit' = (hit \cup {"D2"})
                                 /\ pc' = [pc EXCEPT !["M"] = "msd"]
                                 /\ mgr' = mgr
                            ELSE /\ IF Cardinality(procs) < MaxW
                                       THEN /\ IF refsDropped
                                                  THEN /\ mgr' = "crashed"
                                                       /\ pc' = [pc EXCEPT !["M"] = "mdone"]
                                                  ELSE /\ pc' = [pc EXCEPT !["M"] = "mrlock"]
                                                       /\ mgr' = mgr
                                       ELSE /\ pc' = [pc EXCEPT !["M"] = "msd"]
                                            /\ mgr' = mgr
                                 /\ hit' = hit
                 ELSE /\ pc' = [pc EXCEPT !["M"] = "msd"]
                      /\ UNCHANGED << mgr, hit >>
           /\ UNCHANGED << shutdownF, brokenF, killF, execAlive, refsDropped, 
                           globalExit, pending, fut, workIds, running, sem, 
                           buf, pipe, cqClosed, rdClosed, rq, wake, wkClosed, 
                           procs, alive, holding, exitLock, announced, rlock, 
                           wlock, mgmt, shut, mgrStarted, unew, mnew, watch, 
                           ready, msg, cur, nStop, nSent, crashes, timeouts, 
                           cancels, leaks, execCount, cancelOK, userDone, fop, 
                           ut, fobj, item >>

mrlock == /\ pc["M"] = "mrlock"
          /\ mgmt = "free"
          /\ mgmt' = "M"
          /\ pc' = [pc EXCEPT !["M"] = "mrspawn"]
          /\ UNCHANGED << shutdownF, brokenF, killF, execAlive, refsDropped, 
                          globalExit, pending, fut, workIds, running, sem, buf, 
                          pipe, cqClosed, rdClosed, rq, wake, wkClosed, procs, 
                          alive, holding, exitLock, announced, rlock, wlock, 
                          shut, mgrStarted, mgr, unew, mnew, watch, ready, msg, 
                          cur, nStop, nSent, crashes, timeouts, cancels, leaks, 
                          execCount, cancelOK, hit, userDone, fop, ut, fobj, 
                          item >>

mrspawn == /\ pc["M"] = "mrspawn"
           /\ IF NeedSpawn
                 THEN /\ \E p \in Fresh:
                           /\ alive' = [alive EXCEPT ![p] = "alive"]
                           /\ mnew' = p
                      /\ pc' = [pc EXCEPT !["M"] = "mrreg"]
                 ELSE /\ pc' = [pc EXCEPT !["M"] = "mrunlock"]
                      /\ UNCHANGED << alive, mnew >>
           /\ UNCHANGED << shutdownF, brokenF, killF, execAlive, refsDropped, 
                           globalExit, pending, fut, workIds, running, sem, 
                           buf, pipe, cqClosed, rdClosed, rq, wake, wkClosed, 
                           procs, holding, exitLock, announced, rlock, wlock, 
                           mgmt, shut, mgrStarted, mgr, unew, watch, ready, 
                           msg, cur, nStop, nSent, crashes, timeouts, cancels, 
                           leaks, execCount, cancelOK, hit, userDone, fop, ut, 
                           fobj, item >>

mrreg == /\ pc["M"] = "mrreg"
         /\ procs' = (procs \cup {mnew})
         /\ pc' = [pc EXCEPT !["M"] = "mrspawn"]
         /\ UNCHANGED << shutdownF, brokenF, killF, execAlive, refsDropped, 
                         globalExit, pending, fut, workIds, running, sem, buf, 
                         pipe, cqClosed, rdClosed, rq, wake, wkClosed, alive, 
                         holding, exitLock, announced, rlock, wlock, mgmt, 
                         shut, mgrStarted, mgr, unew, mnew, watch, ready, msg, 
                         cur, nStop, nSent, crashes, timeouts, cancels, leaks, 
                         execCount, cancelOK, hit, userDone, fop, ut, fobj, 
                         item >>

mrunlock == /\ pc["M"] = "mrunlock"
            /\ mgmt' = "free"
            /\ pc' = [pc EXCEPT !["M"] = "msd"]
            /\ UNCHANGED << shutdownF, brokenF, killF, execAlive, refsDropped, 
                            globalExit, pending, fut, workIds, running, sem, 
                            buf, pipe, cqClosed, rdClosed, rq, wake, wkClosed, 
                            procs, alive, holding, exitLock, announced, rlock, 
                            wlock, shut, mgrStarted, mgr, unew, mnew, watch, 
                            ready, msg, cur, nStop, nSent, crashes, timeouts, 
                            cancels, leaks, execCount, cancelOK, hit, userDone, 
                            fop, ut, fobj, item >>

msd == /\ pc["M"] = "msd"
       /\ IF ShuttingDown
             THEN /\ pc' = [pc EXCEPT !["M"] = "msflag"]
             ELSE /\ pc' = [pc EXCEPT !["M"] = "mloop"]
       /\ UNCHANGED << shutdownF, brokenF, killF, execAlive, refsDropped, 
                       globalExit, pending, fut, workIds, running, sem, buf, 
                       pipe, cqClosed, rdClosed, rq, wake, wkClosed, procs, 
                       alive, holding, exitLock, announced, rlock, wlock, mgmt, 
                       shut, mgrStarted, mgr, unew, mnew, watch, ready, msg, 
                       cur, nStop, nSent, crashes, timeouts, cancels, leaks, 
                       execCount, cancelOK, hit, userDone, fop, ut, fobj, item >>

msflag == /\ pc["M"] = "msflag"
          /\ shut = "free"
          /\ shutdownF' = TRUE
          /\ pc' = [pc EXCEPT !["M"] = "mkill"]
          /\ UNCHANGED << brokenF, killF, execAlive, refsDropped, globalExit, 
                          pending, fut, workIds, running, sem, buf, pipe, 
                          cqClosed, rdClosed, rq, wake, wkClosed, procs, alive, 
                          holding, exitLock, announced, rlock, wlock, mgmt, 
                          shut, mgrStarted, mgr, unew, mnew, watch, ready, msg, 
                          cur, nStop, nSent, crashes, timeouts, cancels, leaks, 
                          execCount, cancelOK, hit, userDone, fop, ut, fobj, 
                          item >>

mkill == /\ pc["M"] = "mkill"
         /\ IF killF
               THEN /\ pc' = [pc EXCEPT !["M"] = "mkfail"]
               ELSE /\ pc' = [pc EXCEPT !["M"] = "mspend"]
         /\ UNCHANGED << shutdownF, brokenF, killF, execAlive, refsDropped, 
                         globalExit, pending, fut, workIds, running, sem, buf, 
                         pipe, cqClosed, rdClosed, rq, wake, wkClosed, procs, 
                         alive, holding, exitLock, announced, rlock, wlock, 
                         mgmt, shut, mgrStarted, mgr, unew, mnew, watch, ready, 
                         msg, cur, nStop, nSent, crashes, timeouts, cancels, 
                         leaks, execCount, cancelOK, hit, userDone, fop, ut, 
                         fobj, item >>

mkfail == /\ pc["M"] = "mkfail"
          /\ IF pending # {}
                THEN /\ \E t \in pending:
                          IF fut[t] = "cancelled" /\ ~SafeFail
                             THEN /\ mgr' = "crashed"
                                  /\ pc' = [pc EXCEPT !["M"] = "mdone"]
                                  /\ UNCHANGED << pending, fut >>
                             ELSE /\ fut' = [fut EXCEPT ![t] = IF fut[t] = "cancelled" THEN "cancelled" ELSE "exc_shutdown"]
                                  /\ pending' = pending \ {t}
                                  /\ pc' = [pc EXCEPT !["M"] = "mkfail"]
                                  /\ mgr' = mgr
                ELSE /\ pc' = [pc EXCEPT !["M"] = "mkkill"]
                     /\ UNCHANGED << pending, fut, mgr >>
          /\ UNCHANGED << shutdownF, brokenF, killF, execAlive, refsDropped, 
                          globalExit, workIds, running, sem, buf, pipe, 
                          cqClosed, rdClosed, rq, wake, wkClosed, procs, alive, 
                          holding, exitLock, announced, rlock, wlock, mgmt, 
                          shut, mgrStarted, unew, mnew, watch, ready, msg, cur, 
                          nStop, nSent, crashes, timeouts, cancels, leaks, 
                          execCount, cancelOK, hit, userDone, fop, ut, fobj, 
                          item >>

mkkill == /\ pc["M"] = "mkkill"
          /\ IF procs # {}
                THEN /\ \E p \in procs:
                          /\ IF Alive(p) /\ mgmt = p
                                THEN /\ hit' = (hit \cup {"D14"})
                                ELSE /\ TRUE
                                     /\ hit' = hit
                          /\ alive' = [alive EXCEPT ![p] = IF Dead(p) THEN alive[p] ELSE "dead"]
                          /\ procs' = procs \ {p}
                     /\ pc' = [pc EXCEPT !["M"] = "mkkill"]
                     /\ UNCHANGED rdClosed
                ELSE /\ IF CloseReaderOnKill
                           THEN /\ rdClosed' = TRUE
                           ELSE /\ TRUE
                                /\ UNCHANGED rdClosed
                     /\ pc' = [pc EXCEPT !["M"] = "mspend"]
                     /\ UNCHANGED << procs, alive, hit >>
          /\ UNCHANGED << shutdownF, brokenF, killF, execAlive, refsDropped, 
                          globalExit, pending, fut, workIds, running, sem, buf, 
                          pipe, cqClosed, rq, wake, wkClosed, holding, 
                          exitLock, announced, rlock, wlock, mgmt, shut, 
                          mgrStarted, mgr, unew, mnew, watch, ready, msg, cur, 
                          nStop, nSent, crashes, timeouts, cancels, leaks, 
                          execCount, cancelOK, userDone, fop, ut, fobj, item >>

mspend == /\ pc["M"] = "mspend"
          /\ IF pending = {}
                THEN /\ pc' = [pc EXCEPT !["M"] = "mj1"]
                ELSE /\ pc' = [pc EXCEPT !["M"] = "mloop"]
          /\ UNCHANGED << shutdownF, brokenF, killF, execAlive, refsDropped, 
                          globalExit, pending, fut, workIds, running, sem, buf, 
                          pipe, cqClosed, rdClosed, rq, wake, wkClosed, procs, 
                          alive, holding, exitLock, announced, rlock, wlock, 
                          mgmt, shut, mgrStarted, mgr, unew, mnew, watch, 
                          ready, msg, cur, nStop, nSent, crashes, timeouts, 
                          cancels, leaks, execCount, cancelOK, hit, userDone, 
                          fop, ut, fobj, item >>

mj1 == /\ pc["M"] = "mj1"
       /\ mgmt = "free"
       /\ exitLock' = [p \in Pids |-> IF p \in procs THEN 1 ELSE exitLock[p]]
       /\ nStop' = Cardinality(procs)
       /\ nSent' = 0
       /\ pc' = [pc EXCEPT !["M"] = "mj2"]
       /\ UNCHANGED << shutdownF, brokenF, killF, execAlive, refsDropped, 
                       globalExit, pending, fut, workIds, running, sem, buf, 
                       pipe, cqClosed, rdClosed, rq, wake, wkClosed, procs, 
                       alive, holding, announced, rlock, wlock, mgmt, shut, 
                       mgrStarted, mgr, unew, mnew, watch, ready, msg, cur, 
                       crashes, timeouts, cancels, leaks, execCount, cancelOK, 
                       hit, userDone, fop, ut, fobj, item >>

mj2 == /\ pc["M"] = "mj2"
       /\ IF nSent < nStop /\ (\E p \in procs : ~Dead(p))
             THEN /\ sem > 0 \/ ~(\E p \in procs : ~Dead(p))
                  /\ IF sem > 0
                        THEN /\ sem' = sem - 1
                             /\ buf' = Append(buf, Sentinel)
                             /\ nSent' = nSent + 1
                        ELSE /\ TRUE
                             /\ UNCHANGED << sem, buf, nSent >>
                  /\ pc' = [pc EXCEPT !["M"] = "mj2"]
             ELSE /\ pc' = [pc EXCEPT !["M"] = "mj3"]
                  /\ UNCHANGED << sem, buf, nSent >>
       /\ UNCHANGED << shutdownF, brokenF, killF, execAlive, refsDropped, 
                       globalExit, pending, fut, workIds, running, pipe, 
                       cqClosed, rdClosed, rq, wake, wkClosed, procs, alive, 
                       holding, exitLock, announced, rlock, wlock, mgmt, shut, 
                       mgrStarted, mgr, unew, mnew, watch, ready, msg, cur, 
                       nStop, crashes, timeouts, cancels, leaks, execCount, 
                       cancelOK, hit, userDone, fop, ut, fobj, item >>

mj3 == /\ pc["M"] = "mj3"
       /\ cqClosed' = TRUE
       /\ pc' = [pc EXCEPT !["M"] = "mj4"]
       /\ UNCHANGED << shutdownF, brokenF, killF, execAlive, refsDropped, 
                       globalExit, pending, fut, workIds, running, sem, buf, 
                       pipe, rdClosed, rq, wake, wkClosed, procs, alive, 
                       holding, exitLock, announced, rlock, wlock, mgmt, shut, 
                       mgrStarted, mgr, unew, mnew, watch, ready, msg, cur, 
                       nStop, nSent, crashes, timeouts, cancels, leaks, 
                       execCount, cancelOK, hit, userDone, fop, ut, fobj, item >>

mj4 == /\ pc["M"] = "mj4"
       /\ shut = "free"
       /\ wkClosed' = TRUE
       /\ pc' = [pc EXCEPT !["M"] = "mj5l"]
       /\ UNCHANGED << shutdownF, brokenF, killF, execAlive, refsDropped, 
                       globalExit, pending, fut, workIds, running, sem, buf, 
                       pipe, cqClosed, rdClosed, rq, wake, procs, alive, 
                       holding, exitLock, announced, rlock, wlock, mgmt, shut, 
                       mgrStarted, mgr, unew, mnew, watch, ready, msg, cur, 
                       nStop, nSent, crashes, timeouts, cancels, leaks, 
                       execCount, cancelOK, hit, userDone, fop, ut, fobj, item >>

mj5l == /\ pc["M"] = "mj5l"
        /\ mgmt = "free"
        /\ mgmt' = "M"
        /\ pc' = [pc EXCEPT !["M"] = "mj5"]
        /\ UNCHANGED << shutdownF, brokenF, killF, execAlive, refsDropped, 
                        globalExit, pending, fut, workIds, running, sem, buf, 
                        pipe, cqClosed, rdClosed, rq, wake, wkClosed, procs, 
                        alive, holding, exitLock, announced, rlock, wlock, 
                        shut, mgrStarted, mgr, unew, mnew, watch, ready, msg, 
                        cur, nStop, nSent, crashes, timeouts, cancels, leaks, 
                        execCount, cancelOK, hit, userDone, fop, ut, fobj, 
                        item >>

mj5 == /\ pc["M"] = "mj5"
       /\ IF procs # {}
             THEN /\ IF JoinWatches /\ brokenF
                        THEN /\ pc' = [pc EXCEPT !["M"] = "mj5k"]
                             /\ procs' = procs
                        ELSE /\ IF JoinWatches
                                   THEN /\ \E p \in procs : Dead(p)
                                        /\ \E p \in {q \in procs : Dead(q)}:
                                             /\ procs' = procs \ {p}
                                             /\ IF alive[p] = "dead"
                                                   THEN /\ pc' = [pc EXCEPT !["M"] = "mj5k"]
                                                   ELSE /\ pc' = [pc EXCEPT !["M"] = "mj5"]
                                   ELSE /\ \E p \in procs:
                                             /\ Dead(p) \/ (\A q \in procs : ~Dead(q))
                                             /\ IF ~Dead(p)
                                                   THEN /\ FALSE
                                                        /\ procs' = procs
                                                   ELSE /\ procs' = procs \ {p}
                                        /\ pc' = [pc EXCEPT !["M"] = "mj5"]
             ELSE /\ pc' = [pc EXCEPT !["M"] = "mj6"]
                  /\ procs' = procs
       /\ UNCHANGED << shutdownF, brokenF, killF, execAlive, refsDropped, 
                       globalExit, pending, fut, workIds, running, sem, buf, 
                       pipe, cqClosed, rdClosed, rq, wake, wkClosed, alive, 
                       holding, exitLock, announced, rlock, wlock, mgmt, shut, 
                       mgrStarted, mgr, unew, mnew, watch, ready, msg, cur, 
                       nStop, nSent, crashes, timeouts, cancels, leaks, 
                       execCount, cancelOK, hit, userDone, fop, ut, fobj, item >>

mj5k == /\ pc["M"] = "mj5k"
        /\ IF procs # {}
              THEN /\ \E p \in procs:
                        /\ alive' = [alive EXCEPT ![p] = IF Dead(p) THEN alive[p] ELSE "dead"]
                        /\ procs' = procs \ {p}
                   /\ pc' = [pc EXCEPT !["M"] = "mj5k"]
                   /\ UNCHANGED rdClosed
              ELSE /\ IF CloseReaderOnKill
                         THEN /\ rdClosed' = TRUE
                         ELSE /\ TRUE
                              /\ UNCHANGED rdClosed
                   /\ pc' = [pc EXCEPT !["M"] = "mj6"]
                   /\ UNCHANGED << procs, alive >>
        /\ UNCHANGED << shutdownF, brokenF, killF, execAlive, refsDropped, 
                        globalExit, pending, fut, workIds, running, sem, buf, 
                        pipe, cqClosed, rq, wake, wkClosed, holding, exitLock, 
                        announced, rlock, wlock, mgmt, shut, mgrStarted, mgr, 
                        unew, mnew, watch, ready, msg, cur, nStop, nSent, 
                        crashes, timeouts, cancels, leaks, execCount, cancelOK, 
                        hit, userDone, fop, ut, fobj, item >>

mj6 == /\ pc["M"] = "mj6"
       /\ mgmt' = "free"
       /\ mgr' = "done"
       /\ pc' = [pc EXCEPT !["M"] = "mdone"]
       /\ UNCHANGED << shutdownF, brokenF, killF, execAlive, refsDropped, 
                       globalExit, pending, fut, workIds, running, sem, buf, 
                       pipe, cqClosed, rdClosed, rq, wake, wkClosed, procs, 
                       alive, holding, exitLock, announced, rlock, wlock, shut, 
                       mgrStarted, unew, mnew, watch, ready, msg, cur, nStop, 
                       nSent, crashes, timeouts, cancels, leaks, execCount, 
                       cancelOK, hit, userDone, fop, ut, fobj, item >>

mdone == /\ pc["M"] = "mdone"
         /\ TRUE
         /\ pc' = [pc EXCEPT !["M"] = "Done"]
         /\ UNCHANGED << shutdownF, brokenF, killF, execAlive, refsDropped, 
                         globalExit, pending, fut, workIds, running, sem, buf, 
                         pipe, cqClosed, rdClosed, rq, wake, wkClosed, procs, 
                         alive, holding, exitLock, announced, rlock, wlock, 
                         mgmt, shut, mgrStarted, mgr, unew, mnew, watch, ready, 
                         msg, cur, nStop, nSent, crashes, timeouts, cancels, 
                         leaks, execCount, cancelOK, hit, userDone, fop, ut, 
                         fobj, item >>

manager == m0 \/ mloop \/ mfull \/ mtake \/ mrun \/ mradd \/ mput \/ msnap
              \/ mwait \/ mrecv \/ mclear \/ mp \/ mbflag \/ mbfail
              \/ mbkill \/ mres \/ mrunrm \/ mpop \/ mrel \/ mjoin
              \/ mdecide \/ mrlock \/ mrspawn \/ mrreg \/ mrunlock \/ msd
              \/ msflag \/ mkill \/ mkfail \/ mkkill \/ mspend \/ mj1
              \/ mj2 \/ mj3 \/ mj4 \/ mj5l \/ mj5 \/ mj5k \/ mj6 \/ mdone

f0 == /\ pc["F"] = "f0"
      /\ pc' = [pc EXCEPT !["F"] = "ftake"]
      /\ UNCHANGED << shutdownF, brokenF, killF, execAlive, refsDropped, 
                      globalExit, pending, fut, workIds, running, sem, buf, 
                      pipe, cqClosed, rdClosed, rq, wake, wkClosed, procs, 
                      alive, holding, exitLock, announced, rlock, wlock, mgmt, 
                      shut, mgrStarted, mgr, unew, mnew, watch, ready, msg, 
                      cur, nStop, nSent, crashes, timeouts, cancels, leaks, 
                      execCount, cancelOK, hit, userDone, fop, ut, fobj, item >>

ftake == /\ pc["F"] = "ftake"
         /\ buf # <<>>
         /\ fobj' = Head(buf)
         /\ buf' = Tail(buf)
         /\ pc' = [pc EXCEPT !["F"] = "fsend"]
         /\ UNCHANGED << shutdownF, brokenF, killF, execAlive, refsDropped, 
                         globalExit, pending, fut, workIds, running, sem, pipe, 
                         cqClosed, rdClosed, rq, wake, wkClosed, procs, alive, 
                         holding, exitLock, announced, rlock, wlock, mgmt, 
                         shut, mgrStarted, mgr, unew, mnew, watch, ready, msg, 
                         cur, nStop, nSent, crashes, timeouts, cancels, leaks, 
                         execCount, cancelOK, hit, userDone, fop, ut, item >>

fsend == /\ pc["F"] = "fsend"
         /\ IF fobj # Sentinel /\ Kind[fobj] = "bad_arg"
               THEN /\ sem' = sem + 1
                    /\ pc' = [pc EXCEPT !["F"] = "ferrp"]
                    /\ pipe' = pipe
               ELSE /\ IF fobj # Sentinel /\ Kind[fobj] = "huge"
                          THEN /\ pc' = [pc EXCEPT !["F"] = "fhuge"]
                               /\ pipe' = pipe
                          ELSE /\ pipe' = Append(pipe, fobj)
                               /\ pc' = [pc EXCEPT !["F"] = "f0"]
                    /\ sem' = sem
         /\ UNCHANGED << shutdownF, brokenF, killF, execAlive, refsDropped, 
                         globalExit, pending, fut, workIds, running, buf, 
                         cqClosed, rdClosed, rq, wake, wkClosed, procs, alive, 
                         holding, exitLock, announced, rlock, wlock, mgmt, 
                         shut, mgrStarted, mgr, unew, mnew, watch, ready, msg, 
                         cur, nStop, nSent, crashes, timeouts, cancels, leaks, 
                         execCount, cancelOK, hit, userDone, fop, ut, fobj, 
                         item >>

fhuge == /\ pc["F"] = "fhuge"
         /\ (pipe = <<>> /\ \E p \in Pids : Alive(p) /\ pc[p] = "wpoll") \/ (rdClosed /\ \A p \in Pids : ~Alive(p))
         /\ IF rdClosed /\ \A p \in Pids : ~Alive(p)
               THEN /\ sem' = sem + 1
                    /\ pc' = [pc EXCEPT !["F"] = "ferrp"]
                    /\ pipe' = pipe
               ELSE /\ pipe' = Append(pipe, fobj)
                    /\ pc' = [pc EXCEPT !["F"] = "f0"]
                    /\ sem' = sem
         /\ UNCHANGED << shutdownF, brokenF, killF, execAlive, refsDropped, 
                         globalExit, pending, fut, workIds, running, buf, 
                         cqClosed, rdClosed, rq, wake, wkClosed, procs, alive, 
                         holding, exitLock, announced, rlock, wlock, mgmt, 
                         shut, mgrStarted, mgr, unew, mnew, watch, ready, msg, 
                         cur, nStop, nSent, crashes, timeouts, cancels, leaks, 
                         execCount, cancelOK, hit, userDone, fop, ut, fobj, 
                         item >>

ferrp == /\ pc["F"] = "ferrp"
         /\ IF fobj \in pending
               THEN /\ pending' = pending \ {fobj}
                    /\ fut' = [fut EXCEPT ![fobj] = "exc_pickle"]
               ELSE /\ TRUE
                    /\ UNCHANGED << pending, fut >>
         /\ pc' = [pc EXCEPT !["F"] = "ferrr"]
         /\ UNCHANGED << shutdownF, brokenF, killF, execAlive, refsDropped, 
                         globalExit, workIds, running, sem, buf, pipe, 
                         cqClosed, rdClosed, rq, wake, wkClosed, procs, alive, 
                         holding, exitLock, announced, rlock, wlock, mgmt, 
                         shut, mgrStarted, mgr, unew, mnew, watch, ready, msg, 
                         cur, nStop, nSent, crashes, timeouts, cancels, leaks, 
                         execCount, cancelOK, hit, userDone, fop, ut, fobj, 
                         item >>

ferrr == /\ pc["F"] = "ferrr"
         /\ running' = running \ {fobj}
         /\ pc' = [pc EXCEPT !["F"] = "ferrw"]
         /\ UNCHANGED << shutdownF, brokenF, killF, execAlive, refsDropped, 
                         globalExit, pending, fut, workIds, sem, buf, pipe, 
                         cqClosed, rdClosed, rq, wake, wkClosed, procs, alive, 
                         holding, exitLock, announced, rlock, wlock, mgmt, 
                         shut, mgrStarted, mgr, unew, mnew, watch, ready, msg, 
                         cur, nStop, nSent, crashes, timeouts, cancels, leaks, 
                         execCount, cancelOK, hit, userDone, fop, ut, fobj, 
                         item >>

ferrw == /\ pc["F"] = "ferrw"
         /\ shut = "free"
         /\ IF ~wkClosed
               THEN /\ wake' = wake + 1
               ELSE /\ TRUE
                    /\ wake' = wake
         /\ pc' = [pc EXCEPT !["F"] = "f0"]
         /\ UNCHANGED << shutdownF, brokenF, killF, execAlive, refsDropped, 
                         globalExit, pending, fut, workIds, running, sem, buf, 
                         pipe, cqClosed, rdClosed, rq, wkClosed, procs, alive, 
                         holding, exitLock, announced, rlock, wlock, mgmt, 
                         shut, mgrStarted, mgr, unew, mnew, watch, ready, msg, 
                         cur, nStop, nSent, crashes, timeouts, cancels, leaks, 
                         execCount, cancelOK, hit, userDone, fop, ut, fobj, 
                         item >>

feeder == f0 \/ ftake \/ fsend \/ fhuge \/ ferrp \/ ferrr \/ ferrw

w0(self) == /\ pc[self] = "w0"
            /\ Alive(self)
            /\ pc' = [pc EXCEPT ![self] = "winit"]
            /\ UNCHANGED << shutdownF, brokenF, killF, execAlive, refsDropped, 
                            globalExit, pending, fut, workIds, running, sem, 
                            buf, pipe, cqClosed, rdClosed, rq, wake, wkClosed, 
                            procs, alive, holding, exitLock, announced, rlock, 
                            wlock, mgmt, shut, mgrStarted, mgr, unew, mnew, 
                            watch, ready, msg, cur, nStop, nSent, crashes, 
                            timeouts, cancels, leaks, execCount, cancelOK, hit, 
                            userDone, fop, ut, fobj, item >>

winit(self) == /\ pc[self] = "winit"
               /\ Alive(self)
               /\ IF self \in InitFails
                     THEN /\ alive' = [alive EXCEPT ![self] = "dead"]
                          /\ pc' = [pc EXCEPT ![self] = "wend"]
                     ELSE /\ pc' = [pc EXCEPT ![self] = "wrl"]
                          /\ alive' = alive
               /\ UNCHANGED << shutdownF, brokenF, killF, execAlive, 
                               refsDropped, globalExit, pending, fut, workIds, 
                               running, sem, buf, pipe, cqClosed, rdClosed, rq, 
                               wake, wkClosed, procs, holding, exitLock, 
                               announced, rlock, wlock, mgmt, shut, mgrStarted, 
                               mgr, unew, mnew, watch, ready, msg, cur, nStop, 
                               nSent, crashes, timeouts, cancels, leaks, 
                               execCount, cancelOK, hit, userDone, fop, ut, 
                               fobj, item >>

wrl(self) == /\ pc[self] = "wrl"
             /\ Alive(self)
             /\ \/ /\ rlock = "free"
                   /\ rlock' = self
                   /\ pc' = [pc EXCEPT ![self] = "wpoll"]
                   /\ UNCHANGED timeouts
                \/ /\ HasTimeout /\ rlock # "free" /\ timeouts < MaxTimeout
                   /\ timeouts' = timeouts + 1
                   /\ pc' = [pc EXCEPT ![self] = "wtmo"]
                   /\ rlock' = rlock
             /\ UNCHANGED << shutdownF, brokenF, killF, execAlive, refsDropped, 
                             globalExit, pending, fut, workIds, running, sem, 
                             buf, pipe, cqClosed, rdClosed, rq, wake, wkClosed, 
                             procs, alive, holding, exitLock, announced, wlock, 
                             mgmt, shut, mgrStarted, mgr, unew, mnew, watch, 
                             ready, msg, cur, nStop, nSent, crashes, cancels, 
                             leaks, execCount, cancelOK, hit, userDone, fop, 
                             ut, fobj, item >>

wpoll(self) == /\ pc[self] = "wpoll"
               /\ Alive(self)
               /\ \/ /\ pipe # <<>>
                     /\ pc' = [pc EXCEPT ![self] = "wrecv"]
                     /\ UNCHANGED timeouts
                  \/ /\ HasTimeout /\ pipe = <<>> /\ timeouts < MaxTimeout
                     /\ timeouts' = timeouts + 1
                     /\ pc' = [pc EXCEPT ![self] = "wrlt"]
               /\ UNCHANGED << shutdownF, brokenF, killF, execAlive, 
                               refsDropped, globalExit, pending, fut, workIds, 
                               running, sem, buf, pipe, cqClosed, rdClosed, rq, 
                               wake, wkClosed, procs, alive, holding, exitLock, 
                               announced, rlock, wlock, mgmt, shut, mgrStarted, 
                               mgr, unew, mnew, watch, ready, msg, cur, nStop, 
                               nSent, crashes, cancels, leaks, execCount, 
                               cancelOK, hit, userDone, fop, ut, fobj, item >>

wrlt(self) == /\ pc[self] = "wrlt"
              /\ Alive(self)
              /\ rlock' = "free"
              /\ pc' = [pc EXCEPT ![self] = "wtmo"]
              /\ UNCHANGED << shutdownF, brokenF, killF, execAlive, 
                              refsDropped, globalExit, pending, fut, workIds, 
                              running, sem, buf, pipe, cqClosed, rdClosed, rq, 
                              wake, wkClosed, procs, alive, holding, exitLock, 
                              announced, wlock, mgmt, shut, mgrStarted, mgr, 
                              unew, mnew, watch, ready, msg, cur, nStop, nSent, 
                              crashes, timeouts, cancels, leaks, execCount, 
                              cancelOK, hit, userDone, fop, ut, fobj, item >>

wrecv(self) == /\ pc[self] = "wrecv"
               /\ Alive(self)
               /\ item' = [item EXCEPT ![self] = Head(pipe)]
               /\ pipe' = Tail(pipe)
               /\ IF ~HasTimeout
                     THEN /\ pc' = [pc EXCEPT ![self] = "wrlrel0"]
                     ELSE /\ pc' = [pc EXCEPT ![self] = "wsem"]
               /\ UNCHANGED << shutdownF, brokenF, killF, execAlive, 
                               refsDropped, globalExit, pending, fut, workIds, 
                               running, sem, buf, cqClosed, rdClosed, rq, wake, 
                               wkClosed, procs, alive, holding, exitLock, 
                               announced, rlock, wlock, mgmt, shut, mgrStarted, 
                               mgr, unew, mnew, watch, ready, msg, cur, nStop, 
                               nSent, crashes, timeouts, cancels, leaks, 
                               execCount, cancelOK, hit, userDone, fop, ut, 
                               fobj >>

wsem(self) == /\ pc[self] = "wsem"
              /\ Alive(self)
              /\ sem' = sem + 1
              /\ pc' = [pc EXCEPT ![self] = "wrlrel"]
              /\ UNCHANGED << shutdownF, brokenF, killF, execAlive, 
                              refsDropped, globalExit, pending, fut, workIds, 
                              running, buf, pipe, cqClosed, rdClosed, rq, wake, 
                              wkClosed, procs, alive, holding, exitLock, 
                              announced, rlock, wlock, mgmt, shut, mgrStarted, 
                              mgr, unew, mnew, watch, ready, msg, cur, nStop, 
                              nSent, crashes, timeouts, cancels, leaks, 
                              execCount, cancelOK, hit, userDone, fop, ut, 
                              fobj, item >>

wrlrel(self) == /\ pc[self] = "wrlrel"
                /\ Alive(self)
                /\ rlock' = "free"
                /\ IF item[self] = Sentinel
                      THEN /\ pc' = [pc EXCEPT ![self] = "wann"]
                      ELSE /\ pc' = [pc EXCEPT ![self] = "wunl"]
                /\ UNCHANGED << shutdownF, brokenF, killF, execAlive, 
                                refsDropped, globalExit, pending, fut, workIds, 
                                running, sem, buf, pipe, cqClosed, rdClosed, 
                                rq, wake, wkClosed, procs, alive, holding, 
                                exitLock, announced, wlock, mgmt, shut, 
                                mgrStarted, mgr, unew, mnew, watch, ready, msg, 
                                cur, nStop, nSent, crashes, timeouts, cancels, 
                                leaks, execCount, cancelOK, hit, userDone, fop, 
                                ut, fobj, item >>

wrlrel0(self) == /\ pc[self] = "wrlrel0"
                 /\ Alive(self)
                 /\ rlock' = "free"
                 /\ pc' = [pc EXCEPT ![self] = "wsem0"]
                 /\ UNCHANGED << shutdownF, brokenF, killF, execAlive, 
                                 refsDropped, globalExit, pending, fut, 
                                 workIds, running, sem, buf, pipe, cqClosed, 
                                 rdClosed, rq, wake, wkClosed, procs, alive, 
                                 holding, exitLock, announced, wlock, mgmt, 
                                 shut, mgrStarted, mgr, unew, mnew, watch, 
                                 ready, msg, cur, nStop, nSent, crashes, 
                                 timeouts, cancels, leaks, execCount, cancelOK, 
                                 hit, userDone, fop, ut, fobj, item >>

wsem0(self) == /\ pc[self] = "wsem0"
               /\ Alive(self)
               /\ sem' = sem + 1
               /\ IF item[self] = Sentinel
                     THEN /\ pc' = [pc EXCEPT ![self] = "wann"]
                     ELSE /\ pc' = [pc EXCEPT ![self] = "wunl"]
               /\ UNCHANGED << shutdownF, brokenF, killF, execAlive, 
                               refsDropped, globalExit, pending, fut, workIds, 
                               running, buf, pipe, cqClosed, rdClosed, rq, 
                               wake, wkClosed, procs, alive, holding, exitLock, 
                               announced, rlock, wlock, mgmt, shut, mgrStarted, 
                               mgr, unew, mnew, watch, ready, msg, cur, nStop, 
                               nSent, crashes, timeouts, cancels, leaks, 
                               execCount, cancelOK, hit, userDone, fop, ut, 
                               fobj, item >>

wunl(self) == /\ pc[self] = "wunl"
              /\ Alive(self)
              /\ IF Kind[item[self]] = "unload"
                    THEN /\ rq' = Append(rq, <<"tb", self>>)
                         /\ alive' = [alive EXCEPT ![self] = "dead"]
                         /\ pc' = [pc EXCEPT ![self] = "wend"]
                    ELSE /\ pc' = [pc EXCEPT ![self] = "wrun"]
                         /\ UNCHANGED << rq, alive >>
              /\ UNCHANGED << shutdownF, brokenF, killF, execAlive, 
                              refsDropped, globalExit, pending, fut, workIds, 
                              running, sem, buf, pipe, cqClosed, rdClosed, 
                              wake, wkClosed, procs, holding, exitLock, 
                              announced, rlock, wlock, mgmt, shut, mgrStarted, 
                              mgr, unew, mnew, watch, ready, msg, cur, nStop, 
                              nSent, crashes, timeouts, cancels, leaks, 
                              execCount, cancelOK, hit, userDone, fop, ut, 
                              fobj, item >>

wrun(self) == /\ pc[self] = "wrun"
              /\ Alive(self)
              /\ holding' = [holding EXCEPT ![self] = item[self]]
              /\ execCount' = [execCount EXCEPT ![item[self]] = execCount[item[self]] + 1]
              /\ pc' = [pc EXCEPT ![self] = "wbody"]
              /\ UNCHANGED << shutdownF, brokenF, killF, execAlive, 
                              refsDropped, globalExit, pending, fut, workIds, 
                              running, sem, buf, pipe, cqClosed, rdClosed, rq, 
                              wake, wkClosed, procs, alive, exitLock, 
                              announced, rlock, wlock, mgmt, shut, mgrStarted, 
                              mgr, unew, mnew, watch, ready, msg, cur, nStop, 
                              nSent, crashes, timeouts, cancels, leaks, 
                              cancelOK, hit, userDone, fop, ut, fobj, item >>

wbody(self) == /\ pc[self] = "wbody"
               /\ Alive(self) /\ Kind[item[self]] # "long"
               /\ IF Kind[item[self]] = "crash"
                     THEN /\ alive' = [alive EXCEPT ![self] = "dead"]
                          /\ pc' = [pc EXCEPT ![self] = "wend"]
                     ELSE /\ pc' = [pc EXCEPT ![self] = "wwl"]
                          /\ alive' = alive
               /\ UNCHANGED << shutdownF, brokenF, killF, execAlive, 
                               refsDropped, globalExit, pending, fut, workIds, 
                               running, sem, buf, pipe, cqClosed, rdClosed, rq, 
                               wake, wkClosed, procs, holding, exitLock, 
                               announced, rlock, wlock, mgmt, shut, mgrStarted, 
                               mgr, unew, mnew, watch, ready, msg, cur, nStop, 
                               nSent, crashes, timeouts, cancels, leaks, 
                               execCount, cancelOK, hit, userDone, fop, ut, 
                               fobj, item >>

wwl(self) == /\ pc[self] = "wwl"
             /\ Alive(self) /\ wlock = "free"
             /\ wlock' = self
             /\ pc' = [pc EXCEPT ![self] = "wsend"]
             /\ UNCHANGED << shutdownF, brokenF, killF, execAlive, refsDropped, 
                             globalExit, pending, fut, workIds, running, sem, 
                             buf, pipe, cqClosed, rdClosed, rq, wake, wkClosed, 
                             procs, alive, holding, exitLock, announced, rlock, 
                             mgmt, shut, mgrStarted, mgr, unew, mnew, watch, 
                             ready, msg, cur, nStop, nSent, crashes, timeouts, 
                             cancels, leaks, execCount, cancelOK, hit, 
                             userDone, fop, ut, fobj, item >>

wsend(self) == /\ pc[self] = "wsend"
               /\ Alive(self)
               /\ IF Kind[item[self]] = "big"
                     THEN /\ rq' = Append(rq, <<"part", item[self]>>)
                     ELSE /\ rq' = Append(rq, <<"res", item[self]>>)
               /\ pc' = [pc EXCEPT ![self] = "wsend2"]
               /\ UNCHANGED << shutdownF, brokenF, killF, execAlive, 
                               refsDropped, globalExit, pending, fut, workIds, 
                               running, sem, buf, pipe, cqClosed, rdClosed, 
                               wake, wkClosed, procs, alive, holding, exitLock, 
                               announced, rlock, wlock, mgmt, shut, mgrStarted, 
                               mgr, unew, mnew, watch, ready, msg, cur, nStop, 
                               nSent, crashes, timeouts, cancels, leaks, 
                               execCount, cancelOK, hit, userDone, fop, ut, 
                               fobj, item >>

wsend2(self) == /\ pc[self] = "wsend2"
                /\ Alive(self)
                /\ IF Kind[item[self]] = "big"
                      THEN /\ rq' = [i \in 1..Len(rq) |-> IF rq[i] = <<"part", item[self]>> THEN <<"res", item[self]>> ELSE rq[i]]
                      ELSE /\ TRUE
                           /\ rq' = rq
                /\ holding' = [holding EXCEPT ![self] = 0]
                /\ pc' = [pc EXCEPT ![self] = "wwrel"]
                /\ UNCHANGED << shutdownF, brokenF, killF, execAlive, 
                                refsDropped, globalExit, pending, fut, workIds, 
                                running, sem, buf, pipe, cqClosed, rdClosed, 
                                wake, wkClosed, procs, alive, exitLock, 
                                announced, rlock, wlock, mgmt, shut, 
                                mgrStarted, mgr, unew, mnew, watch, ready, msg, 
                                cur, nStop, nSent, crashes, timeouts, cancels, 
                                leaks, execCount, cancelOK, hit, userDone, fop, 
                                ut, fobj, item >>

wwrel(self) == /\ pc[self] = "wwrel"
               /\ Alive(self)
               /\ wlock' = "free"
               /\ \/ /\ pc' = [pc EXCEPT ![self] = "wrl"]
                     /\ leaks' = leaks
                  \/ /\ leaks < MaxLeak
                     /\ leaks' = leaks + 1
                     /\ pc' = [pc EXCEPT ![self] = "wann"]
               /\ UNCHANGED << shutdownF, brokenF, killF, execAlive, 
                               refsDropped, globalExit, pending, fut, workIds, 
                               running, sem, buf, pipe, cqClosed, rdClosed, rq, 
                               wake, wkClosed, procs, alive, holding, exitLock, 
                               announced, rlock, mgmt, shut, mgrStarted, mgr, 
                               unew, mnew, watch, ready, msg, cur, nStop, 
                               nSent, crashes, timeouts, cancels, execCount, 
                               cancelOK, hit, userDone, fop, ut, fobj, item >>

wtmo(self) == /\ pc[self] = "wtmo"
              /\ Alive(self)
              /\ \/ /\ mgmt = "free"
                    /\ mgmt' = self
                    /\ pc' = [pc EXCEPT ![self] = "wmrel"]
                 \/ /\ mgmt # "free" \/ pc["M"] \in {"mpop", "mrel", "mj1", "mj2"}
                    /\ pc' = [pc EXCEPT ![self] = "wrl"]
                    /\ mgmt' = mgmt
              /\ UNCHANGED << shutdownF, brokenF, killF, execAlive, 
                              refsDropped, globalExit, pending, fut, workIds, 
                              running, sem, buf, pipe, cqClosed, rdClosed, rq, 
                              wake, wkClosed, procs, alive, holding, exitLock, 
                              announced, rlock, wlock, shut, mgrStarted, mgr, 
                              unew, mnew, watch, ready, msg, cur, nStop, nSent, 
                              crashes, timeouts, cancels, leaks, execCount, 
                              cancelOK, hit, userDone, fop, ut, fobj, item >>

wmrel(self) == /\ pc[self] = "wmrel"
               /\ Alive(self)
               /\ mgmt' = "free"
               /\ pc' = [pc EXCEPT ![self] = "wann"]
               /\ UNCHANGED << shutdownF, brokenF, killF, execAlive, 
                               refsDropped, globalExit, pending, fut, workIds, 
                               running, sem, buf, pipe, cqClosed, rdClosed, rq, 
                               wake, wkClosed, procs, alive, holding, exitLock, 
                               announced, rlock, wlock, shut, mgrStarted, mgr, 
                               unew, mnew, watch, ready, msg, cur, nStop, 
                               nSent, crashes, timeouts, cancels, leaks, 
                               execCount, cancelOK, hit, userDone, fop, ut, 
                               fobj, item >>

wann(self) == /\ pc[self] = "wann"
              /\ Alive(self) /\ wlock = "free"
              /\ wlock' = self
              /\ pc' = [pc EXCEPT ![self] = "wann2"]
              /\ UNCHANGED << shutdownF, brokenF, killF, execAlive, 
                              refsDropped, globalExit, pending, fut, workIds, 
                              running, sem, buf, pipe, cqClosed, rdClosed, rq, 
                              wake, wkClosed, procs, alive, holding, exitLock, 
                              announced, rlock, mgmt, shut, mgrStarted, mgr, 
                              unew, mnew, watch, ready, msg, cur, nStop, nSent, 
                              crashes, timeouts, cancels, leaks, execCount, 
                              cancelOK, hit, userDone, fop, ut, fobj, item >>

wann2(self) == /\ pc[self] = "wann2"
               /\ Alive(self)
               /\ rq' = Append(rq, <<"pid", self>>)
               /\ announced' = [announced EXCEPT ![self] = TRUE]
               /\ pc' = [pc EXCEPT ![self] = "wann3"]
               /\ UNCHANGED << shutdownF, brokenF, killF, execAlive, 
                               refsDropped, globalExit, pending, fut, workIds, 
                               running, sem, buf, pipe, cqClosed, rdClosed, 
                               wake, wkClosed, procs, alive, holding, exitLock, 
                               rlock, wlock, mgmt, shut, mgrStarted, mgr, unew, 
                               mnew, watch, ready, msg, cur, nStop, nSent, 
                               crashes, timeouts, cancels, leaks, execCount, 
                               cancelOK, hit, userDone, fop, ut, fobj, item >>

wann3(self) == /\ pc[self] = "wann3"
               /\ Alive(self)
               /\ wlock' = "free"
               /\ pc' = [pc EXCEPT ![self] = "wexl"]
               /\ UNCHANGED << shutdownF, brokenF, killF, execAlive, 
                               refsDropped, globalExit, pending, fut, workIds, 
                               running, sem, buf, pipe, cqClosed, rdClosed, rq, 
                               wake, wkClosed, procs, alive, holding, exitLock, 
                               announced, rlock, mgmt, shut, mgrStarted, mgr, 
                               unew, mnew, watch, ready, msg, cur, nStop, 
                               nSent, crashes, timeouts, cancels, leaks, 
                               execCount, cancelOK, hit, userDone, fop, ut, 
                               fobj, item >>

wexl(self) == /\ pc[self] = "wexl"
              /\ Alive(self)
              /\ \/ /\ exitLock[self] = 1
                    /\ UNCHANGED timeouts
                 \/ /\ exitLock[self] # 1 /\ timeouts < MaxTimeout
                    /\ timeouts' = timeouts + 1
              /\ pc' = [pc EXCEPT ![self] = "wexit"]
              /\ UNCHANGED << shutdownF, brokenF, killF, execAlive, 
                              refsDropped, globalExit, pending, fut, workIds, 
                              running, sem, buf, pipe, cqClosed, rdClosed, rq, 
                              wake, wkClosed, procs, alive, holding, exitLock, 
                              announced, rlock, wlock, mgmt, shut, mgrStarted, 
                              mgr, unew, mnew, watch, ready, msg, cur, nStop, 
                              nSent, crashes, cancels, leaks, execCount, 
                              cancelOK, hit, userDone, fop, ut, fobj, item >>

wexit(self) == /\ pc[self] = "wexit"
               /\ Alive(self)
               /\ alive' = [alive EXCEPT ![self] = "clean"]
               /\ pc' = [pc EXCEPT ![self] = "wend"]
               /\ UNCHANGED << shutdownF, brokenF, killF, execAlive, 
                               refsDropped, globalExit, pending, fut, workIds, 
                               running, sem, buf, pipe, cqClosed, rdClosed, rq, 
                               wake, wkClosed, procs, holding, exitLock, 
                               announced, rlock, wlock, mgmt, shut, mgrStarted, 
                               mgr, unew, mnew, watch, ready, msg, cur, nStop, 
                               nSent, crashes, timeouts, cancels, leaks, 
                               execCount, cancelOK, hit, userDone, fop, ut, 
                               fobj, item >>

wend(self) == /\ pc[self] = "wend"
              /\ TRUE
              /\ pc' = [pc EXCEPT ![self] = "Done"]
              /\ UNCHANGED << shutdownF, brokenF, killF, execAlive, 
                              refsDropped, globalExit, pending, fut, workIds, 
                              running, sem, buf, pipe, cqClosed, rdClosed, rq, 
                              wake, wkClosed, procs, alive, holding, exitLock, 
                              announced, rlock, wlock, mgmt, shut, mgrStarted, 
                              mgr, unew, mnew, watch, ready, msg, cur, nStop, 
                              nSent, crashes, timeouts, cancels, leaks, 
                              execCount, cancelOK, hit, userDone, fop, ut, 
                              fobj, item >>

worker(self) == w0(self) \/ winit(self) \/ wrl(self) \/ wpoll(self)
                   \/ wrlt(self) \/ wrecv(self) \/ wsem(self)
                   \/ wrlrel(self) \/ wrlrel0(self) \/ wsem0(self)
                   \/ wunl(self) \/ wrun(self) \/ wbody(self) \/ wwl(self)
                   \/ wsend(self) \/ wsend2(self) \/ wwrel(self)
                   \/ wtmo(self) \/ wmrel(self) \/ wann(self)
                   \/ wann2(self) \/ wann3(self) \/ wexl(self)
                   \/ wexit(self) \/ wend(self)

e0 == /\ pc["E"] = "e0"
      /\ IF crashes < MaxCrash
            THEN /\ \E p \in {q \in Pids : Alive(q)}:
                      /\ alive' = [alive EXCEPT ![p] = "dead"]
                      /\ crashes' = crashes + 1
                      /\ hit' = (hit \cup (IF pc[p] = "wsend2" /\ holding[p] # 0 /\ Kind[holding[p]] = "big" THEN {"D7"} ELSE {})
                                     \cup (IF mgmt = p THEN {"D14"} ELSE {})
                                     \cup (IF pc[p] = "wann3" /\ ~ExitChecked THEN {"D15"} ELSE {})
                                     \cup (IF pc["M"] \in {"mspend", "mj1", "mj2", "mj3", "mj4", "mj5l", "mj5", "mj5k"} /\ ~brokenF /\ ~JoinWatches THEN {"D16"} ELSE {}))
                 /\ pc' = [pc EXCEPT !["E"] = "e0"]
            ELSE /\ pc' = [pc EXCEPT !["E"] = "Done"]
                 /\ UNCHANGED << alive, crashes, hit >>
      /\ UNCHANGED << shutdownF, brokenF, killF, execAlive, refsDropped, 
                      globalExit, pending, fut, workIds, running, sem, buf, 
                      pipe, cqClosed, rdClosed, rq, wake, wkClosed, procs, 
                      holding, exitLock, announced, rlock, wlock, mgmt, shut, 
                      mgrStarted, mgr, unew, mnew, watch, ready, msg, cur, 
                      nStop, nSent, timeouts, cancels, leaks, execCount, 
                      cancelOK, userDone, fop, ut, fobj, item >>

env == e0

Next == user \/ canceller \/ manager \/ feeder \/ env
           \/ (\E self \in Pids: worker(self))

Spec == Init /\ [][Next]_vars

\* END TRANSLATION

-----------------------------------------------------------------------------
(* properties *)
AllTerminal == \A t \in Tasks : Terminal(t)
Closing == shutdownF \/ ~execAlive \/ globalExit \/ brokenF
\* a legitimately final state: everything submitted is resolved, the user returned, and if the executor was closed
\* its threads are done and no worker is left
GoodFinal == /\ AllTerminal /\ userDone
             /\ (Closing /\ mgrStarted => mgr = "done" /\ procs = {} /\ (\A p \in Pids : ~Alive(p)) /\ pc["F"] # "fhuge")
\* C01 as a safety property: the only states without a successor are good final states (checked through TLC's
\* deadlock detection: Finished is the only action enabled in a good final state)
\* states reached through the window of an open known finding are exempt (they are reproduced separately)
Finished == (GoodFinal \/ hit # {}) /\ UNCHANGED vars
SpecF == Init /\ [][Next \/ Finished]_vars

\* C03
AtMostOnce == \A t \in Tasks : execCount[t] <= 1
CancelMeansNeverRun == \A t \in cancelOK : execCount[t] = 0 /\ fut[t] = "cancelled"
RightFuture == \A t \in Tasks : fut[t] = "result" => execCount[t] = 1 /\ Kind[t] \in {"ok", "big", "huge"}
\* C04: call-queue slots are conserved on every path, including the feeder error path
SlotConservation == sem + Len(buf) + Len(pipe) + (IF pc["F"] \in {"fsend", "fhuge"} THEN 1 ELSE 0)
                      + Cardinality({p \in Pids : pc[p] \in {"wsem", "wrlrel0", "wsem0"}}) = QSize
\* C08
BoundedParallelism == Cardinality(procs) <= MaxW /\ Cardinality(Busy) <= MaxW
\* C02 (design level): a broken pool leaves no future pending once the manager is done
BrokenTotal == (brokenF /\ mgr = "done") => AllTerminal
\* C07: with timeouts only (no crash budget, no pool-breaking kinds) the pool is never flagged broken
TimeoutNeverBreaks == (MaxCrash = 0 /\ InitFails = {} /\ (\A t \in Tasks : Kind[t] \notin {"crash", "unload"})) => ~brokenF
\* C05: graceful closing never kills
CleanHandshakeOnly == (MaxCrash = 0 /\ InitFails = {} /\ ~killF /\ (\A t \in Tasks : Kind[t] \notin {"crash", "unload"}))
                         => \A p \in Pids : alive[p] # "dead"
\* C07: a worker never leaves on timeout while it holds a task
NoTimeoutWhileHolding == \A p \in Pids : pc[p] \in {"wtmo", "wmrel"} => holding[p] = 0
\* windows of the open known findings (section 5.3): expected to be reachable; used with `hit = {}` as a filter
NoOpenWindow == hit = {}
=============================================================================
