---------------------------- MODULE Reusable ----------------------------
(* C09 / C10 at the design level: the module-level singleton of loky.reusable_executor, its lock (_executor_lock, shared by
   get_reusable_executor, submit and _resize), and _resize step by step, against an abstract executor (manager thread,
   workers, processes management lock, sentinels, idle timeouts, done-callbacks that submit).

   One executor instance exists at a time (`eid` counts them).  Callers are threads that call
   get_reusable_executor(max_workers = Size[c]) and then submit one job; one extra thread may call shutdown() on the
   instance it sees.  The manager is abstract: it completes jobs (running their done-callbacks, which may call submit() and
   therefore need the lock), processes exit announcements, and on shutdown posts sentinels and joins what is registered.

   Switches: SpawnUnderLock (D19: _resize spawns under the processes management lock -- TRUE after the fix),
   CallbackSubmits (the D6 pattern), UserShutdown (the D18 pattern), RecheckAfterWait (D24: a worker that dies while
   _resize waits for the jobs breaks the pool; without the re-check _resize goes on to spawn workers on the broken
   executor, which nobody ever stops), WakeAfterResize (D27: the manager thread waits on the sentinels of the workers that
   were registered when its wait() began -- `watched`; a worker spawned by _resize afterwards is only watched once
   something wakes the manager up; without the wake-up its death goes unnoticed and a later shrink waits forever).
   Open findings are exempted through `hit`.                                   *)
EXTENDS Naturals, FiniteSets, Sequences, TLC

CONSTANTS Callers, Size, Pids, MaxTimeout, HasTimeout, CallbackSubmits, UserShutdown, SpawnUnderLock,
          MaxCrash,            \* abrupt deaths of registered workers (the environment)
          WakeAfterResize,     \* D27: _resize wakes the manager thread up after spawning, so that its wait() covers the new workers
          RecheckAfterWait     \* D24: _resize looks at the broken / shutdown flags again after waiting for the jobs, and
                               \*      get_reusable_executor replaces an executor that became unusable during the resize

(* --algorithm reusable
variables
  exlock = "free", mgmt = "free",
  eid = 0, maxw = 0, procs = {}, alive = {}, announced = {}, used = {},
  pending = 0, sentinels = 0, shutdownF = FALSE, mgr = "none", callbacks = (IF CallbackSubmits THEN 1 ELSE 0),
  starting = {}, timeouts = 0, got = [c \in Callers |-> 0], done = [c \in Callers |-> FALSE], hit = {},
  gracePassed = {}, broken = FALSE, crashes = 0,
  watched = {}, wake = FALSE,                 \* the workers whose sentinel the manager's current wait() covers; a pending wake-up
  sawBroken = [c \in Callers |-> FALSE];      \* ghost: the instance was already unusable when this call's wait for the jobs ended

define
  Fresh == Pids \ used
  NeedSpawn == Cardinality(procs) < maxw /\ Fresh # {}
  Registered(p) == p \in procs
end define;

macro spawnOne() begin
  with p \in Fresh do
     procs := procs \cup {p}; alive := alive \cup {p}; used := used \cup {p};
  end with;
end macro;

\* get_reusable_executor(max_workers=Size[self]) followed by one submit
process caller \in Callers
variable k = 0;
begin
 c0: await exlock = "free"; exlock := self;
 c1: if eid = 0 then
        eid := 1; maxw := Size[self]; shutdownF := FALSE; mgr := "none"; goto cret;
     elsif shutdownF \/ broken then
 crep:  \* replace: executor.shutdown(wait=True) while holding the lock
        shutdownF := TRUE;
 cjoin: await mgr \in {"none", "done"};
        eid := eid + 1; maxw := Size[self]; shutdownF := FALSE; broken := FALSE; mgr := "none"; procs := {}; sentinels := 0; pending := 0;
        sawBroken[self] := FALSE;
        goto cret;
     elsif Size[self] = maxw then goto cret;
     elsif mgr = "none" then maxw := Size[self]; goto cret;
     end if;
 r1: await pending = 0;                                    \* _wait_job_completion (polling)
 r1b: sawBroken[self] := broken;
      \* _resize returns at once when the instance was flagged meanwhile; get_reusable_executor replaces a broken one
      if RecheckAfterWait /\ broken then goto crep;
      elsif RecheckAfterWait /\ shutdownF then goto cret; end if;
 r2: await mgmt = "free"; mgmt := self;
 r2b: k := Cardinality(procs \cap alive);
      maxw := Size[self];
      sentinels := sentinels + (IF k > Size[self] THEN k - Size[self] ELSE 0);
      mgmt := "free";
 r3: await Cardinality(procs) <= maxw \/ broken;           \* polling: only the manager pops workers
 r3b: \* ... and the flags are looked at once more: nothing is spawned on an instance that broke / was shut down meanwhile
      if RecheckAfterWait /\ broken then goto crep;
      elsif RecheckAfterWait /\ shutdownF then goto cret; end if;
 r4: if SpawnUnderLock then await mgmt = "free"; mgmt := self; end if;
 r4s: while NeedSpawn do
        if broken then hit := hit \cup {"D24"}; elsif shutdownF then hit := hit \cup {"D18"}; end if;
        \* p.start() ... then self._processes[p.pid] = p : the new worker runs before it is registered
        with p \in Fresh do alive := alive \cup {p}; used := used \cup {p}; starting := {p}; end with;
 r4r:   procs := procs \cup starting; starting := {};
      end while;
 r4u: if mgmt = self then mgmt := "free"; end if;
      if WakeAfterResize then wake := TRUE; end if;
      if RecheckAfterWait /\ broken then goto crep; end if;
 cret: got[self] := eid; exlock := "free";
 \* executor.submit(job): needs the same lock
 s0: await exlock = "free"; exlock := self;
 s1: if ~shutdownF /\ ~broken then
        pending := pending + 1;
 s2:    await mgmt = "free"; mgmt := self;
 s3:    while NeedSpawn do spawnOne(); end while;
        mgr := IF mgr = "none" THEN "run" ELSE mgr; mgmt := "free";
        wake := TRUE;                                      \* submit() wakes the manager thread up once the workers exist
     end if;
 s4: exlock := "free"; done[self] := TRUE;
end process;

\* a thread that shuts the current instance down explicitly (wait=False)
process stopper = "S"
begin
 x0: if UserShutdown then
        await eid > 0 /\ mgr # "none"; shutdownF := TRUE;
     end if;
end process;

process manager = "M"
begin
 m0: while TRUE do
       \* wait_result_broken_or_wakeup: the sentinels of the workers registered NOW are what this wait() watches
       watched := procs;
 mw:   either \* woken up with nothing else to do: back to a fresh wait()
         await wake; wake := FALSE;
       or \* a result arrives: the job is done, its done-callback runs in this thread
         await mgr = "run" /\ pending > 0 /\ (procs \cap alive) # {};
         pending := pending - 1;
         if callbacks > 0 then
            callbacks := 0;
            \* from here on the manager thread depends on the submit/resize lock: the D6 window
            hit := hit \cup {"D6"};
 mcb:       await exlock = "free"; exlock := "M";           \* callback: reusable_executor.submit
 mcb2:      if ~shutdownF /\ ~broken then pending := pending + 1; end if;
            exlock := "free";
         end if;
       or \* an exit announcement of a registered worker: pop it, release its exit lock, join it
         await mgr = "run" /\ mgmt = "free" /\ (announced \cap procs) # {};
         with w \in announced \cap procs do
            procs := procs \ {w}; announced := announced \ {w}; alive := alive \ {w};
         end with;
 mresp:  if pending > 0 /\ Cardinality(procs) < maxw /\ ~shutdownF then
            await mgmt = "free"; mgmt := "M";
 mresp2:    while NeedSpawn do spawnOne(); end while;
            mgmt := "free";
         end if;
       or \* an exit announcement of a worker that is not registered: nothing to pop, its exit lock is never released
         await mgr = "run" /\ mgmt = "free" /\ (announced \ procs) # {};
         with w \in announced \ procs do
            announced := announced \ {w}; gracePassed := gracePassed \cup {w};
         end with;
       or \* the sentinel of a registered worker that left without a completed handshake: the pool is broken
         await mgr = "run" /\ (\E w \in procs \cap watched : w \notin alive);
         broken := TRUE; shutdownF := TRUE; alive := alive \ procs; procs := {}; pending := 0; mgr := "done";
       or \* shutdown with nothing pending: post one sentinel per registered worker, then join what is registered
         await mgr = "run" /\ shutdownF /\ pending = 0;
         sentinels := sentinels + Cardinality(procs); mgr := "final";
 mfin:   await mgmt = "free"; mgmt := "M";
 mjoin:  while procs # {} do
            await \E p \in procs : p \notin alive;
            with p \in {q \in procs : q \notin alive} do procs := procs \ {p}; end with;
         end while;
         mgmt := "free"; mgr := "done";
       end either;
     end while;
end process;

\* the environment: a registered, live worker dies without announcing anything
process env = "E"
begin
 e0: while crashes < MaxCrash do
       with w \in (procs \cap alive) \ announced do alive := alive \ {w}; crashes := crashes + 1; end with;
     end while;
end process;

process worker \in Pids
begin
 w0: while TRUE do
       either \* receives a sentinel
         await self \in alive /\ sentinels > 0;
         sentinels := sentinels - 1;
         if mgr = "final" then alive := alive \ {self};          \* exit locks were released: leaves at once
         else announced := announced \cup {self}; end if;
       or \* idle timeout: only if nobody holds the processes management lock
         await self \in alive /\ HasTimeout /\ timeouts < MaxTimeout /\ mgmt = "free" /\ self \notin announced /\ mgr # "final";
         timeouts := timeouts + 1; announced := announced \cup {self};
       or \* exit lock never released: leaves after its 30 s grace period (a long timer: only when it was given up on)
         await self \in alive /\ self \in gracePassed;
         alive := alive \ {self}; gracePassed := gracePassed \ {self};
       end either;
     end while;
end process;
end algorithm; *)
\* BEGIN TRANSLATION
VARIABLES pc, exlock, mgmt, eid, maxw, procs, alive, announced, used, pending, 
          sentinels, shutdownF, mgr, callbacks, starting, timeouts, got, done, 
          hit, gracePassed, broken, crashes, watched, wake, sawBroken

(* define statement *)
Fresh == Pids \ used
NeedSpawn == Cardinality(procs) < maxw /\ Fresh # {}
Registered(p) == p \in procs

VARIABLE k

vars == << pc, exlock, mgmt, eid, maxw, procs, alive, announced, used, 
           pending, sentinels, shutdownF, mgr, callbacks, starting, timeouts, 
           got, done, hit, gracePassed, broken, crashes, watched, wake, 
           sawBroken, k >>

ProcSet == (Callers) \cup {"S"} \cup {"M"} \cup {"E"} \cup (Pids)

Init == (* Global variables *)
        /\ exlock = "free"
        /\ mgmt = "free"
        /\ eid = 0
        /\ maxw = 0
        /\ procs = {}
        /\ alive = {}
        /\ announced = {}
        /\ used = {}
        /\ pending = 0
        /\ sentinels = 0
        /\ shutdownF = FALSE
        /\ mgr = "none"
        /\ callbacks = (IF CallbackSubmits THEN 1 ELSE 0)
        /\ starting = {}
        /\ timeouts = 0
        /\ got = [c \in Callers |-> 0]
        /\ done = [c \in Callers |-> FALSE]
        /\ hit = {}
        /\ gracePassed = {}
        /\ broken = FALSE
        /\ crashes = 0
        /\ watched = {}
        /\ wake = FALSE
        /\ sawBroken = [c \in Callers |-> FALSE]
        (* Process caller *)
        /\ k = [self \in Callers |-> 0]
        /\ pc = [self \in ProcSet |-> CASE self \in Callers -> "c0"
                                        [] self = "S" -> "x0"
                                        [] self = "M" -> "m0"
                                        [] self = "E" -> "e0"
                                        [] self \in Pids -> "w0"]

c0(self) == /\ pc[self] = "c0"
            /\ exlock = "free"
            /\ exlock' = self
            /\ pc' = [pc EXCEPT ![self] = "c1"]
            /\ UNCHANGED << mgmt, eid, maxw, procs, alive, announced, used, 
                            pending, sentinels, shutdownF, mgr, callbacks, 
                            starting, timeouts, got, done, hit, gracePassed, 
                            broken, crashes, watched, wake, sawBroken, k >>

c1(self) == /\ pc[self] = "c1"
            /\ IF eid = 0
                  THEN /\ eid' = 1
                       /\ maxw' = Size[self]
                       /\ shutdownF' = FALSE
                       /\ mgr' = "none"
                       /\ pc' = [pc EXCEPT ![self] = "cret"]
                  ELSE /\ IF shutdownF \/ broken
                             THEN /\ pc' = [pc EXCEPT ![self] = "crep"]
                                  /\ maxw' = maxw
                             ELSE /\ IF Size[self] = maxw
                                        THEN /\ pc' = [pc EXCEPT ![self] = "cret"]
                                             /\ maxw' = maxw
                                        ELSE /\ IF mgr = "none"
                                                   THEN /\ maxw' = Size[self]
                                                        /\ pc' = [pc EXCEPT ![self] = "cret"]
                                                   ELSE /\ pc' = [pc EXCEPT ![self] = "r1"]
                                                        /\ maxw' = maxw
                       /\ UNCHANGED << eid, shutdownF, mgr >>
            /\ UNCHANGED << exlock, mgmt, procs, alive, announced, used, 
                            pending, sentinels, callbacks, starting, timeouts, 
                            got, done, hit, gracePassed, broken, crashes, 
                            watched, wake, sawBroken, k >>

crep(self) == /\ pc[self] = "crep"
              /\ shutdownF' = TRUE
              /\ pc' = [pc EXCEPT ![self] = "cjoin"]
              /\ UNCHANGED << exlock, mgmt, eid, maxw, procs, alive, announced, 
                              used, pending, sentinels, mgr, callbacks, 
                              starting, timeouts, got, done, hit, gracePassed, 
                              broken, crashes, watched, wake, sawBroken, k >>

cjoin(self) == /\ pc[self] = "cjoin"
               /\ mgr \in {"none", "done"}
               /\ eid' = eid + 1
               /\ maxw' = Size[self]
               /\ shutdownF' = FALSE
               /\ broken' = FALSE
               /\ mgr' = "none"
               /\ procs' = {}
               /\ sentinels' = 0
               /\ pending' = 0
               /\ sawBroken' = [sawBroken EXCEPT ![self] = FALSE]
               /\ pc' = [pc EXCEPT ![self] = "cret"]
               /\ UNCHANGED << exlock, mgmt, alive, announced, used, callbacks, 
                               starting, timeouts, got, done, hit, gracePassed, 
                               crashes, watched, wake, k >>

r1(self) == /\ pc[self] = "r1"
            /\ pending = 0
            /\ pc' = [pc EXCEPT ![self] = "r1b"]
            /\ UNCHANGED << exlock, mgmt, eid, maxw, procs, alive, announced, 
                            used, pending, sentinels, shutdownF, mgr, 
                            callbacks, starting, timeouts, got, done, hit, 
                            gracePassed, broken, crashes, watched, wake, 
                            sawBroken, k >>

r1b(self) == /\ pc[self] = "r1b"
             /\ sawBroken' = [sawBroken EXCEPT ![self] = broken]
             /\ IF RecheckAfterWait /\ broken
                   THEN /\ pc' = [pc EXCEPT ![self] = "crep"]
                   ELSE /\ IF RecheckAfterWait /\ shutdownF
                              THEN /\ pc' = [pc EXCEPT ![self] = "cret"]
                              ELSE /\ pc' = [pc EXCEPT ![self] = "r2"]
             /\ UNCHANGED << exlock, mgmt, eid, maxw, procs, alive, announced, 
                             used, pending, sentinels, shutdownF, mgr, 
                             callbacks, starting, timeouts, got, done, hit, 
                             gracePassed, broken, crashes, watched, wake, k >>

r2(self) == /\ pc[self] = "r2"
            /\ mgmt = "free"
            /\ mgmt' = self
            /\ pc' = [pc EXCEPT ![self] = "r2b"]
            /\ UNCHANGED << exlock, eid, maxw, procs, alive, announced, used, 
                            pending, sentinels, shutdownF, mgr, callbacks, 
                            starting, timeouts, got, done, hit, gracePassed, 
                            broken, crashes, watched, wake, sawBroken, k >>

r2b(self) == /\ pc[self] = "r2b"
             /\ k' = [k EXCEPT ![self] = Cardinality(procs \cap alive)]
             /\ maxw' = Size[self]
             /\ sentinels' = sentinels + (IF k'[self] > Size[self] THEN k'[self] - Size[self] ELSE 0)
             /\ mgmt' = "free"
             /\ pc' = [pc EXCEPT ![self] = "r3"]
             /\ UNCHANGED << exlock, eid, procs, alive, announced, used, 
                             pending, shutdownF, mgr, callbacks, starting, 
                             timeouts, got, done, hit, gracePassed, broken, 
                             crashes, watched, wake, sawBroken >>

r3(self) == /\ pc[self] = "r3"
            /\ Cardinality(procs) <= maxw \/ broken
            /\ pc' = [pc EXCEPT ![self] = "r3b"]
            /\ UNCHANGED << exlock, mgmt, eid, maxw, procs, alive, announced, 
                            used, pending, sentinels, shutdownF, mgr, 
                            callbacks, starting, timeouts, got, done, hit, 
                            gracePassed, broken, crashes, watched, wake, 
                            sawBroken, k >>

r3b(self) == /\ pc[self] = "r3b"
             /\ IF RecheckAfterWait /\ broken
                   THEN /\ pc' = [pc EXCEPT ![self] = "crep"]
                   ELSE /\ IF RecheckAfterWait /\ shutdownF
                              THEN /\ pc' = [pc EXCEPT ![self] = "cret"]
                              ELSE /\ pc' = [pc EXCEPT ![self] = "r4"]
             /\ UNCHANGED << exlock, mgmt, eid, maxw, procs, alive, announced, 
                             used, pending, sentinels, shutdownF, mgr, 
                             callbacks, starting, timeouts, got, done, hit, 
                             gracePassed, broken, crashes, watched, wake, 
                             sawBroken, k >>

r4(self) == /\ pc[self] = "r4"
            /\ IF SpawnUnderLock
                  THEN /\ mgmt = "free"
                       /\ mgmt' = self
                  ELSE /\ TRUE
                       /\ mgmt' = mgmt
            /\ pc' = [pc EXCEPT ![self] = "r4s"]
            /\ UNCHANGED << exlock, eid, maxw, procs, alive, announced, used, 
                            pending, sentinels, shutdownF, mgr, callbacks, 
                            starting, timeouts, got, done, hit, gracePassed, 
                            broken, crashes, watched, wake, sawBroken, k >>

r4s(self) == /\ pc[self] = "r4s"
             /\ IF NeedSpawn
                   THEN /\ IF broken
                              THEN /\ hit' = (hit \cup {"D24"})
                              ELSE /\ IF shutdownF
                                         THEN /\ hit' = (hit \cup {"D18"})
                                         ELSE /\ TRUE
                                              /\ hit' = hit
                        /\ \E p \in Fresh:
                             /\ alive' = (alive \cup {p})
                             /\ used' = (used \cup {p})
                             /\ starting' = {p}
                        /\ pc' = [pc EXCEPT ![self] = "r4r"]
                   ELSE /\ pc' = [pc EXCEPT ![self] = "r4u"]
                        /\ UNCHANGED << alive, used, starting, hit >>
             /\ UNCHANGED << exlock, mgmt, eid, maxw, procs, announced, 
                             pending, sentinels, shutdownF, mgr, callbacks, 
                             timeouts, got, done, gracePassed, broken, crashes, 
                             watched, wake, sawBroken, k >>

r4r(self) == /\ pc[self] = "r4r"
             /\ procs' = (procs \cup starting)
             /\ starting' = {}
             /\ pc' = [pc EXCEPT ![self] = "r4s"]
             /\ UNCHANGED << exlock, mgmt, eid, maxw, alive, announced, used, 
                             pending, sentinels, shutdownF, mgr, callbacks, 
                             timeouts, got, done, hit, gracePassed, broken, 
                             crashes, watched, wake, sawBroken, k >>

r4u(self) == /\ pc[self] = "r4u"
             /\ IF mgmt = self
                   THEN /\ mgmt' = "free"
                   ELSE /\ TRUE
                        /\ mgmt' = mgmt
             /\ IF WakeAfterResize
                   THEN /\ wake' = TRUE
                   ELSE /\ TRUE
                        /\ wake' = wake
             /\ IF RecheckAfterWait /\ broken
                   THEN /\ pc' = [pc EXCEPT ![self] = "crep"]
                   ELSE /\ pc' = [pc EXCEPT ![self] = "cret"]
             /\ UNCHANGED << exlock, eid, maxw, procs, alive, announced, used, 
                             pending, sentinels, shutdownF, mgr, callbacks, 
                             starting, timeouts, got, done, hit, gracePassed, 
                             broken, crashes, watched, sawBroken, k >>

cret(self) == /\ pc[self] = "cret"
              /\ got' = [got EXCEPT ![self] = eid]
              /\ exlock' = "free"
              /\ pc' = [pc EXCEPT ![self] = "s0"]
              /\ UNCHANGED << mgmt, eid, maxw, procs, alive, announced, used, 
                              pending, sentinels, shutdownF, mgr, callbacks, 
                              starting, timeouts, done, hit, gracePassed, 
                              broken, crashes, watched, wake, sawBroken, k >>

s0(self) == /\ pc[self] = "s0"
            /\ exlock = "free"
            /\ exlock' = self
            /\ pc' = [pc EXCEPT ![self] = "s1"]
            /\ UNCHANGED << mgmt, eid, maxw, procs, alive, announced, used, 
                            pending, sentinels, shutdownF, mgr, callbacks, 
                            starting, timeouts, got, done, hit, gracePassed, 
                            broken, crashes, watched, wake, sawBroken, k >>

s1(self) == /\ pc[self] = "s1"
            /\ IF ~shutdownF /\ ~broken
                  THEN /\ pending' = pending + 1
                       /\ pc' = [pc EXCEPT ![self] = "s2"]
                  ELSE /\ pc' = [pc EXCEPT ![self] = "s4"]
                       /\ UNCHANGED pending
            /\ UNCHANGED << exlock, mgmt, eid, maxw, procs, alive, announced, 
                            used, sentinels, shutdownF, mgr, callbacks, 
                            starting, timeouts, got, done, hit, gracePassed, 
                            broken, crashes, watched, wake, sawBroken, k >>

s2(self) == /\ pc[self] = "s2"
            /\ mgmt = "free"
            /\ mgmt' = self
            /\ pc' = [pc EXCEPT ![self] = "s3"]
            /\ UNCHANGED << exlock, eid, maxw, procs, alive, announced, used, 
                            pending, sentinels, shutdownF, mgr, callbacks, 
                            starting, timeouts, got, done, hit, gracePassed, 
                            broken, crashes, watched, wake, sawBroken, k >>

s3(self) == /\ pc[self] = "s3"
            /\ IF NeedSpawn
                  THEN /\ \E p \in Fresh:
                            /\ procs' = (procs \cup {p})
                            /\ alive' = (alive \cup {p})
                            /\ used' = (used \cup {p})
                       /\ pc' = [pc EXCEPT ![self] = "s3"]
                       /\ UNCHANGED << mgmt, mgr, wake >>
                  ELSE /\ mgr' = (IF mgr = "none" THEN "run" ELSE mgr)
                       /\ mgmt' = "free"
                       /\ wake' = TRUE
                       /\ pc' = [pc EXCEPT ![self] = "s4"]
                       /\ UNCHANGED << procs, alive, used >>
            /\ UNCHANGED << exlock, eid, maxw, announced, pending, sentinels, 
                            shutdownF, callbacks, starting, timeouts, got, 
                            done, hit, gracePassed, broken, crashes, watched, 
                            sawBroken, k >>

s4(self) == /\ pc[self] = "s4"
            /\ exlock' = "free"
            /\ done' = [done EXCEPT ![self] = TRUE]
            /\ pc' = [pc EXCEPT ![self] = "Done"]
            /\ UNCHANGED << mgmt, eid, maxw, procs, alive, announced, used, 
                            pending, sentinels, shutdownF, mgr, callbacks, 
                            starting, timeouts, got, hit, gracePassed, broken, 
                            crashes, watched, wake, sawBroken, k >>

caller(self) == c0(self) \/ c1(self) \/ crep(self) \/ cjoin(self)
                   \/ r1(self) \/ r1b(self) \/ r2(self) \/ r2b(self)
                   \/ r3(self) \/ r3b(self) \/ r4(self) \/ r4s(self)
                   \/ r4r(self) \/ r4u(self) \/ cret(self) \/ s0(self)
                   \/ s1(self) \/ s2(self) \/ s3(self) \/ s4(self)

x0 == /\ pc["S"] = "x0"
      /\ IF UserShutdown
            THEN /\ eid > 0 /\ mgr # "none"
                 /\ shutdownF' = TRUE
            ELSE /\ TRUE
                 /\ UNCHANGED shutdownF
      /\ pc' = [pc EXCEPT !["S"] = "Done"]
      /\ UNCHANGED << exlock, mgmt, eid, maxw, procs, alive, announced, used, 
                      pending, sentinels, mgr, callbacks, starting, timeouts, 
                      got, done, hit, gracePassed, broken, crashes, watched, 
                      wake, sawBroken, k >>

stopper == x0

m0 == /\ pc["M"] = "m0"
      /\ watched' = procs
      /\ pc' = [pc EXCEPT !["M"] = "mw"]
      /\ UNCHANGED << exlock, mgmt, eid, maxw, procs, alive, announced, used, 
                      pending, sentinels, shutdownF, mgr, callbacks, starting, 
                      timeouts, got, done, hit, gracePassed, broken, crashes, 
                      wake, sawBroken, k >>

mw == /\ pc["M"] = "mw"
      /\ \/ /\ wake
            /\ wake' = FALSE
            /\ pc' = [pc EXCEPT !["M"] = "m0"]
            /\ UNCHANGED <<procs, alive, announced, pending, sentinels, shutdownF, mgr, callbacks, hit, gracePassed, broken>>
         \/ /\ mgr = "run" /\ pending > 0 /\ (procs \cap alive) # {}
            /\ pending' = pending - 1
            /\ IF callbacks > 0
                  THEN /\ callbacks' = 0
                       /\ hit' = (hit \cup {"D6"})
                       /\ pc' = [pc EXCEPT !["M"] = "mcb"]
                  ELSE /\ pc' = [pc EXCEPT !["M"] = "m0"]
                       /\ UNCHANGED << callbacks, hit >>
            /\ UNCHANGED <<procs, alive, announced, sentinels, shutdownF, mgr, gracePassed, broken, wake>>
         \/ /\ mgr = "run" /\ mgmt = "free" /\ (announced \cap procs) # {}
            /\ \E w \in announced \cap procs:
                 /\ procs' = procs \ {w}
                 /\ announced' = announced \ {w}
                 /\ alive' = alive \ {w}
            /\ pc' = [pc EXCEPT !["M"] = "mresp"]
            /\ UNCHANGED <<pending, sentinels, shutdownF, mgr, callbacks, hit, gracePassed, broken, wake>>
         \/ /\ mgr = "run" /\ mgmt = "free" /\ (announced \ procs) # {}
            /\ \E w \in announced \ procs:
                 /\ announced' = announced \ {w}
                 /\ gracePassed' = (gracePassed \cup {w})
            /\ pc' = [pc EXCEPT !["M"] = "m0"]
            /\ UNCHANGED <<procs, alive, pending, sentinels, shutdownF, mgr, callbacks, hit, broken, wake>>
         \/ /\ mgr = "run" /\ (\E w \in procs \cap watched : w \notin alive)
            /\ broken' = TRUE
            /\ shutdownF' = TRUE
            /\ alive' = alive \ procs
            /\ procs' = {}
            /\ pending' = 0
            /\ mgr' = "done"
            /\ pc' = [pc EXCEPT !["M"] = "m0"]
            /\ UNCHANGED <<announced, sentinels, callbacks, hit, gracePassed, wake>>
         \/ /\ mgr = "run" /\ shutdownF /\ pending = 0
            /\ sentinels' = sentinels + Cardinality(procs)
            /\ mgr' = "final"
            /\ pc' = [pc EXCEPT !["M"] = "mfin"]
            /\ UNCHANGED <<procs, alive, announced, pending, shutdownF, callbacks, hit, gracePassed, broken, wake>>
      /\ UNCHANGED << exlock, mgmt, eid, maxw, used, starting, timeouts, got, 
                      done, crashes, watched, sawBroken, k >>

mcb == /\ pc["M"] = "mcb"
       /\ exlock = "free"
       /\ exlock' = "M"
       /\ pc' = [pc EXCEPT !["M"] = "mcb2"]
       /\ UNCHANGED << mgmt, eid, maxw, procs, alive, announced, used, pending, 
                       sentinels, shutdownF, mgr, callbacks, starting, 
                       timeouts, got, done, hit, gracePassed, broken, crashes, 
                       watched, wake, sawBroken, k >>

mcb2 == /\ pc["M"] = "mcb2"
        /\ IF ~shutdownF /\ ~broken
              THEN /\ pending' = pending + 1
              ELSE /\ TRUE
                   /\ UNCHANGED pending
        /\ exlock' = "free"
        /\ pc' = [pc EXCEPT !["M"] = "m0"]
        /\ UNCHANGED << mgmt, eid, maxw, procs, alive, announced, used, 
                        sentinels, shutdownF, mgr, callbacks, starting, 
                        timeouts, got, done, hit, gracePassed, broken, crashes, 
                        watched, wake, sawBroken, k >>

mresp == /\ pc["M"] = "mresp"
         /\ IF pending > 0 /\ Cardinality(procs) < maxw /\ ~shutdownF
               THEN /\ mgmt = "free"
                    /\ mgmt' = "M"
                    /\ pc' = [pc EXCEPT !["M"] = "mresp2"]
               ELSE /\ pc' = [pc EXCEPT !["M"] = "m0"]
                    /\ mgmt' = mgmt
         /\ UNCHANGED << exlock, eid, maxw, procs, alive, announced, used, 
                         pending, sentinels, shutdownF, mgr, callbacks, 
                         starting, timeouts, got, done, hit, gracePassed, 
                         broken, crashes, watched, wake, sawBroken, k >>

mresp2 == /\ pc["M"] = "mresp2"
          /\ IF NeedSpawn
                THEN /\ \E p \in Fresh:
                          /\ procs' = (procs \cup {p})
                          /\ alive' = (alive \cup {p})
                          /\ used' = (used \cup {p})
                     /\ pc' = [pc EXCEPT !["M"] = "mresp2"]
                     /\ mgmt' = mgmt
                ELSE /\ mgmt' = "free"
                     /\ pc' = [pc EXCEPT !["M"] = "m0"]
                     /\ UNCHANGED << procs, alive, used >>
          /\ UNCHANGED << exlock, eid, maxw, announced, pending, sentinels, 
                          shutdownF, mgr, callbacks, starting, timeouts, got, 
                          done, hit, gracePassed, broken, crashes, watched, 
                          wake, sawBroken, k >>

mfin == /\ pc["M"] = "mfin"
        /\ mgmt = "free"
        /\ mgmt' = "M"
        /\ pc' = [pc EXCEPT !["M"] = "mjoin"]
        /\ UNCHANGED << exlock, eid, maxw, procs, alive, announced, used, 
                        pending, sentinels, shutdownF, mgr, callbacks, 
                        starting, timeouts, got, done, hit, gracePassed, 
                        broken, crashes, watched, wake, sawBroken, k >>

mjoin == /\ pc["M"] = "mjoin"
         /\ IF procs # {}
               THEN /\ \E p \in procs : p \notin alive
                    /\ \E p \in {q \in procs : q \notin alive}:
                         procs' = procs \ {p}
                    /\ pc' = [pc EXCEPT !["M"] = "mjoin"]
                    /\ UNCHANGED << mgmt, mgr >>
               ELSE /\ mgmt' = "free"
                    /\ mgr' = "done"
                    /\ pc' = [pc EXCEPT !["M"] = "m0"]
                    /\ procs' = procs
         /\ UNCHANGED << exlock, eid, maxw, alive, announced, used, pending, 
                         sentinels, shutdownF, callbacks, starting, timeouts, 
                         got, done, hit, gracePassed, broken, crashes, watched, 
                         wake, sawBroken, k >>

manager == m0 \/ mw \/ mcb \/ mcb2 \/ mresp \/ mresp2 \/ mfin \/ mjoin

e0 == /\ pc["E"] = "e0"
      /\ IF crashes < MaxCrash
            THEN /\ \E w \in (procs \cap alive) \ announced:
                      /\ alive' = alive \ {w}
                      /\ crashes' = crashes + 1
                 /\ pc' = [pc EXCEPT !["E"] = "e0"]
            ELSE /\ pc' = [pc EXCEPT !["E"] = "Done"]
                 /\ UNCHANGED << alive, crashes >>
      /\ UNCHANGED << exlock, mgmt, eid, maxw, procs, announced, used, pending, 
                      sentinels, shutdownF, mgr, callbacks, starting, timeouts, 
                      got, done, hit, gracePassed, broken, watched, wake, 
                      sawBroken, k >>

env == e0

w0(self) == /\ pc[self] = "w0"
            /\ \/ /\ self \in alive /\ sentinels > 0
                  /\ sentinels' = sentinels - 1
                  /\ IF mgr = "final"
                        THEN /\ alive' = alive \ {self}
                             /\ UNCHANGED announced
                        ELSE /\ announced' = (announced \cup {self})
                             /\ alive' = alive
                  /\ UNCHANGED <<timeouts, gracePassed>>
               \/ /\ self \in alive /\ HasTimeout /\ timeouts < MaxTimeout /\ mgmt = "free" /\ self \notin announced /\ mgr # "final"
                  /\ timeouts' = timeouts + 1
                  /\ announced' = (announced \cup {self})
                  /\ UNCHANGED <<alive, sentinels, gracePassed>>
               \/ /\ self \in alive /\ self \in gracePassed
                  /\ alive' = alive \ {self}
                  /\ gracePassed' = gracePassed \ {self}
                  /\ UNCHANGED <<announced, sentinels, timeouts>>
            /\ pc' = [pc EXCEPT ![self] = "w0"]
            /\ UNCHANGED << exlock, mgmt, eid, maxw, procs, used, pending, 
                            shutdownF, mgr, callbacks, starting, got, done, 
                            hit, broken, crashes, watched, wake, sawBroken, k >>

worker(self) == w0(self)

Next == stopper \/ manager \/ env
           \/ (\E self \in Callers: caller(self))
           \/ (\E self \in Pids: worker(self))

Spec == Init /\ [][Next]_vars

\* END TRANSLATION

-----------------------------------------------------------------------------
AllDone == \A c \in Callers : done[c]
GoodFinal == AllDone
Finished == (GoodFinal \/ hit # {}) /\ UNCHANGED vars
SpecF == Init /\ [][Next \/ Finished]_vars
\* C09: every caller obtained an executor whose id is at least the one it saw, ids only grow
IdsGrow == \A c \in Callers : got[c] <= eid
\* C07/C09/C10: the pool is never marked broken: nothing crashes in this model
NeverBroken == ~broken
\* C08/C10: never more workers registered than the largest size in force
Bounded == \A c \in Callers : Cardinality(procs) <= maxw \/ (\E d \in Callers : pc[d] \in {"r2b", "r3"}) \/ Cardinality(procs) <= 4
\* D19: a worker that is not registered never takes the idle-timeout exit
NoD6 == "D6" \notin hit
NoD18 == "D18" \notin hit
NoD24 == "D24" \notin hit
\* C09: a call does not hand out an instance that was already broken / shut down when its wait for the jobs ended
\* (a death after the last look at the flags cannot be excluded by any implementation)
ReturnsUsable == [][ \A c \in Callers : (pc[c] = "cret" /\ pc'[c] = "s0") => ~sawBroken[c] \/ UserShutdown ]_vars
OnlyRegisteredAnnounce == announced \subseteq procs \cup gracePassed \/ ~SpawnUnderLock
=============================================================================
