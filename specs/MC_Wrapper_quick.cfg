SPECIFICATION Spec
CONSTANTS
  Kinds = {"lambda", "closure", "rec", "cinst", "inst", "ccls", "cls", "icinst", "icls", "sinst", "bufinst"}
  MaxSt = 2
  MaxDepth = 2
  Protos = {0, 2, 4, 5}
  MaxSteps = 5
INVARIANT StBounded
PROPERTY ArrivalRule
PROPERTY OrigUntouched
CHECK_DEADLOCK FALSE
