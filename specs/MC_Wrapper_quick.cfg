SPECIFICATION Spec
CONSTANTS
  Kinds = {"lambda", "closure", "rec", "cinst", "inst", "ccls", "cls", "icinst", "icls"}
  MaxSt = 2
  MaxDepth = 2
  MaxSteps = 5
INVARIANT StBounded
PROPERTY ArrivalRule
PROPERTY OrigUntouched
CHECK_DEADLOCK FALSE
