---------------------------- MODULE Condition ----------------------------
(* C14.  loky.backend.synchronize.Condition (and the Event built on it) as programs over three counting
   semaphores and a lock.  ONE ACTION PER SEMAPHORE OPERATION of the code, so that a TLC behaviour is a schedule
   of the real methods running on instrumented semaphores (see engine/sim/cond_sim.py), and so that a timeout can
   fire at any moment at which a waiter is blocked on _wait_semaphore.

   Threads: Waiters call `with cond: cond.wait(timeout)` (timeout only for w \in Timed); Notifiers call
   `with cond: cond.notify()` or `cond.notify_all()` (Kind[n]).  Each thread repeats its call Reps times.

   Program counters name the *pending* semaphore operation of the thread:
     waiter   : "lock.acq" -> "sleeping.rel" -> "lock.rel" -> "wait.acq" -> "woken.rel" -> "lock.acq2" -> "lock.rel2" -> (next call | "done")
     notifier : "lock.acq" -> "wait.try0" (assert) -> "woken.try" <-> "sleeping.try0" (loop) -> "sleeping.try"
                -> "wait.rel" -> "woken.acq" -> "wait.try1" -> "lock.rel" -> (next call | "done")
                (notify_all repeats "sleeping.try"/"wait.rel", then "woken.acq" x sleepers, then "wait.try1" until it fails)
*)
EXTENDS Naturals, Sequences, FiniteSets, TLC

CONSTANTS Waiters, Timed, Notifiers, Kind, Reps

ASSUME Timed \subseteq Waiters
Threads == Waiters \cup Notifiers

VARIABLES lock,        \* owner of the condition's lock, or "free"
          sleeping, woken, waitsem,   \* values of _sleeping_count, _woken_count, _wait_semaphore
          pc,          \* pending operation of each thread
          calls,       \* number of calls completed by each thread
          sleepers,    \* notify_all local variable
          result,      \* waiters: sequence of results of their wait() calls ("woken" | "timeout")
          asserted,    \* an assertion of the code failed
          \* ghosts for the properties
          atLock,      \* notifier n -> set of <<waiter, call index>> inside wait() (asleep or about to be) when n took the lock for its current call
          wokeDuring,  \* notifier n -> waiters that returned "woken" since n's current call began
          notifyOne,   \* completed notify() calls: sequence of records [had, woke]
          last         \* history: <<thread, operation, outcome>> of the last step (hidden by View)
vars == <<lock, sleeping, woken, waitsem, pc, calls, sleepers, result, asserted, atLock, wokeDuring, notifyOne, last>>
View == <<lock, sleeping, woken, waitsem, pc, calls, sleepers, result, asserted, atLock, wokeDuring, notifyOne>>

Init == /\ lock = "free" /\ sleeping = 0 /\ woken = 0 /\ waitsem = 0
        /\ pc = [t \in Threads |-> "lock.acq"] /\ calls = [t \in Threads |-> 0]
        /\ sleepers = [n \in Notifiers |-> 0]
        /\ result = [w \in Waiters |-> <<>>] /\ asserted = FALSE
        /\ atLock = [n \in Notifiers |-> {}] /\ wokeDuring = [n \in Notifiers |-> {}]
        /\ notifyOne = <<>> /\ last = <<>>

Goto(t, l) == pc' = [pc EXCEPT ![t] = l]
\* waiters that have announced themselves (sleeping_count released) and have not yet left wait()
InWait == {w \in Waiters : pc[w] \in {"lock.rel", "wait.acq"}}
\* of those, the ones whose wait cannot end by a timeout
Steady == InWait \ Timed
EndCall(t) == /\ calls' = [calls EXCEPT ![t] = @ + 1]
              /\ Goto(t, IF calls[t] + 1 < Reps THEN "lock.acq" ELSE "done")

-----------------------------------------------------------------------------
(* waiter w: with cond: cond.wait(timeout) *)
WLockAcq(w) == /\ pc[w] = "lock.acq" /\ lock = "free" /\ lock' = w /\ Goto(w, "sleeping.rel")
               /\ last' = <<w, "lock.acq", "ok">>
               /\ UNCHANGED <<sleeping, woken, waitsem, calls, sleepers, result, asserted, atLock, wokeDuring, notifyOne>>
WSleepingRel(w) == /\ pc[w] = "sleeping.rel" /\ sleeping' = sleeping + 1 /\ Goto(w, "lock.rel")
                   /\ last' = <<w, "sleeping.rel", "ok">>
                   /\ UNCHANGED <<lock, woken, waitsem, calls, sleepers, result, asserted, atLock, wokeDuring, notifyOne>>
WLockRel(w) == /\ pc[w] = "lock.rel" /\ lock' = "free" /\ Goto(w, "wait.acq")
               /\ last' = <<w, "lock.rel", "ok">>
               /\ UNCHANGED <<sleeping, woken, waitsem, calls, sleepers, result, asserted, atLock, wokeDuring, notifyOne>>
WWaitAcq(w) == /\ pc[w] = "wait.acq" /\ waitsem > 0 /\ waitsem' = waitsem - 1
               /\ result' = [result EXCEPT ![w] = Append(@, "woken")]
               /\ wokeDuring' = [n \in Notifiers |-> IF pc[n] \notin {"lock.acq", "done"} THEN wokeDuring[n] \cup {w} ELSE wokeDuring[n]]
               /\ Goto(w, "woken.rel") /\ last' = <<w, "wait.acq", "ok">>
               /\ UNCHANGED <<lock, sleeping, woken, calls, sleepers, asserted, atLock, notifyOne>>
WWaitTimeout(w) == /\ pc[w] = "wait.acq" /\ w \in Timed
                   /\ result' = [result EXCEPT ![w] = Append(@, "timeout")]
                   /\ Goto(w, "woken.rel") /\ last' = <<w, "wait.acq", "timeout">>
                   /\ UNCHANGED <<lock, sleeping, woken, waitsem, calls, sleepers, asserted, atLock, wokeDuring, notifyOne>>
WWokenRel(w) == /\ pc[w] = "woken.rel" /\ woken' = woken + 1 /\ Goto(w, "lock.acq2")
                /\ last' = <<w, "woken.rel", "ok">>
                /\ UNCHANGED <<lock, sleeping, waitsem, calls, sleepers, result, asserted, atLock, wokeDuring, notifyOne>>
WLockAcq2(w) == /\ pc[w] = "lock.acq2" /\ lock = "free" /\ lock' = w /\ Goto(w, "lock.rel2")
                /\ last' = <<w, "lock.acq2", "ok">>
                /\ UNCHANGED <<sleeping, woken, waitsem, calls, sleepers, result, asserted, atLock, wokeDuring, notifyOne>>
WLockRel2(w) == /\ pc[w] = "lock.rel2" /\ lock' = "free" /\ EndCall(w)
                /\ last' = <<w, "lock.rel2", "ok">>
                /\ UNCHANGED <<sleeping, woken, waitsem, sleepers, result, asserted, atLock, wokeDuring, notifyOne>>

(* notifier n: with cond: cond.notify() / cond.notify_all() *)
NLockAcq(n) == /\ pc[n] = "lock.acq" /\ lock = "free" /\ lock' = n /\ Goto(n, "wait.try0")
               /\ atLock' = [atLock EXCEPT ![n] = {<<w, calls[w]>> : w \in InWait}] /\ wokeDuring' = [wokeDuring EXCEPT ![n] = {}]
               /\ sleepers' = [sleepers EXCEPT ![n] = 0]
               /\ last' = <<n, "lock.acq", "ok">>
               /\ UNCHANGED <<sleeping, woken, waitsem, calls, result, asserted, notifyOne>>
\* assert not self._wait_semaphore.acquire(False)
NWaitTry0(n) == /\ pc[n] = "wait.try0"
                /\ IF waitsem > 0 THEN /\ waitsem' = waitsem - 1 /\ asserted' = TRUE /\ Goto(n, "failed")
                                       /\ last' = <<n, "wait.try0", "ok">>
                   ELSE /\ UNCHANGED <<waitsem, asserted>> /\ Goto(n, "woken.try") /\ last' = <<n, "wait.try0", "fail">>
                /\ UNCHANGED <<lock, sleeping, woken, calls, sleepers, result, atLock, wokeDuring, notifyOne>>
\* while self._woken_count.acquire(False):
NWokenTry(n) == /\ pc[n] = "woken.try"
                /\ IF woken > 0 THEN /\ woken' = woken - 1 /\ Goto(n, "sleeping.try0") /\ last' = <<n, "woken.try", "ok">>
                   ELSE /\ UNCHANGED woken /\ Goto(n, "sleeping.try") /\ last' = <<n, "woken.try", "fail">>
                /\ UNCHANGED <<lock, sleeping, waitsem, calls, sleepers, result, asserted, atLock, wokeDuring, notifyOne>>
\*     res = self._sleeping_count.acquire(False); assert res
NSleepingTry0(n) == /\ pc[n] = "sleeping.try0"
                    /\ IF sleeping > 0 THEN /\ sleeping' = sleeping - 1 /\ UNCHANGED asserted /\ Goto(n, "woken.try")
                                            /\ last' = <<n, "sleeping.try0", "ok">>
                       ELSE /\ UNCHANGED sleeping /\ asserted' = TRUE /\ Goto(n, "failed") /\ last' = <<n, "sleeping.try0", "fail">>
                    /\ UNCHANGED <<lock, woken, waitsem, calls, sleepers, result, atLock, wokeDuring, notifyOne>>
\* if / while self._sleeping_count.acquire(False):
NSleepingTry(n) ==
  /\ pc[n] = "sleeping.try"
  /\ IF sleeping > 0
     THEN /\ sleeping' = sleeping - 1 /\ Goto(n, "wait.rel") /\ last' = <<n, "sleeping.try", "ok">>
     ELSE /\ UNCHANGED sleeping /\ last' = <<n, "sleeping.try", "fail">>
          /\ IF Kind[n] = "notify_all" /\ sleepers[n] > 0 THEN Goto(n, "woken.acq") ELSE Goto(n, "lock.rel")
  /\ UNCHANGED <<lock, woken, waitsem, calls, sleepers, result, asserted, atLock, wokeDuring, notifyOne>>
\* self._wait_semaphore.release()
NWaitRel(n) == /\ pc[n] = "wait.rel" /\ waitsem' = waitsem + 1
               /\ IF Kind[n] = "notify_all" THEN /\ sleepers' = [sleepers EXCEPT ![n] = @ + 1] /\ Goto(n, "sleeping.try")
                  ELSE /\ sleepers' = [sleepers EXCEPT ![n] = 1] /\ Goto(n, "woken.acq")
               /\ last' = <<n, "wait.rel", "ok">>
               /\ UNCHANGED <<lock, sleeping, woken, calls, result, asserted, atLock, wokeDuring, notifyOne>>
\* self._woken_count.acquire()   (blocking)
NWokenAcq(n) == /\ pc[n] = "woken.acq" /\ woken > 0 /\ woken' = woken - 1
                /\ sleepers' = [sleepers EXCEPT ![n] = @ - 1]
                /\ Goto(n, IF sleepers[n] > 1 THEN "woken.acq" ELSE "wait.try1")
                /\ last' = <<n, "woken.acq", "ok">>
                /\ UNCHANGED <<lock, sleeping, waitsem, calls, result, asserted, atLock, wokeDuring, notifyOne>>
\* rezero: notify -> one acquire(False); notify_all -> while acquire(False): pass
NWaitTry1(n) == /\ pc[n] = "wait.try1"
                /\ IF waitsem > 0 THEN /\ waitsem' = waitsem - 1 /\ last' = <<n, "wait.try1", "ok">>
                                       /\ Goto(n, IF Kind[n] = "notify_all" THEN "wait.try1" ELSE "lock.rel")
                   ELSE /\ UNCHANGED waitsem /\ Goto(n, "lock.rel") /\ last' = <<n, "wait.try1", "fail">>
                /\ UNCHANGED <<lock, sleeping, woken, calls, sleepers, result, asserted, atLock, wokeDuring, notifyOne>>
NLockRel(n) == /\ pc[n] = "lock.rel" /\ lock' = "free" /\ EndCall(n)
               /\ notifyOne' = IF Kind[n] = "notify"
                               THEN Append(notifyOne, [steady |-> {p[1] : p \in atLock[n]} \ Timed, woke |-> wokeDuring[n], n |-> n])
                               ELSE notifyOne
               /\ last' = <<n, "lock.rel", "ok">>
               /\ UNCHANGED <<sleeping, woken, waitsem, sleepers, result, asserted, atLock, wokeDuring>>

Next == \/ \E w \in Waiters : \/ WLockAcq(w) \/ WSleepingRel(w) \/ WLockRel(w) \/ WWaitAcq(w) \/ WWaitTimeout(w)
                              \/ WWokenRel(w) \/ WLockAcq2(w) \/ WLockRel2(w)
        \/ \E n \in Notifiers : \/ NLockAcq(n) \/ NWaitTry0(n) \/ NWokenTry(n) \/ NSleepingTry0(n) \/ NSleepingTry(n)
                                \/ NWaitRel(n) \/ NWokenAcq(n) \/ NWaitTry1(n) \/ NLockRel(n)
Spec == Init /\ [][Next]_vars

-----------------------------------------------------------------------------
(* properties *)
NoInternalAssert == ~asserted
MutualExclusion == \A t \in Threads : pc[t] \in {"sleeping.rel", "lock.rel", "lock.rel2", "wait.try0", "woken.try", "sleeping.try0",
                                                 "sleeping.try", "wait.rel", "woken.acq", "wait.try1"} => lock = t
\* wait() returns (reaches the end of the with block) holding the lock
WaitReturnsHoldingLock == \A w \in Waiters : pc[w] = "lock.rel2" => lock = w
\* False (a "timeout" result) only for waiters that have a timeout
FalseOnlyAfterTimeout == \A w \in Waiters : \A i \in 1..Len(result[w]) : result[w][i] = "timeout" => w \in Timed
\* notify_all: when the call returns, every waiter that was inside wait() when the notifier took the lock has left it
NotifyAllWakesAll ==
  \A n \in Notifiers : (Kind[n] = "notify_all" /\ pc[n] = "lock.rel") =>
       \A p \in atLock[n] : calls[p[1]] > p[2] \/ pc[p[1]] \notin {"lock.rel", "wait.acq"}
\* notify wakes at most one waiter: no two waiters are woken by the same notify() and with only notify() calls
\* the number of "woken" results never exceeds the number of notify() calls begun
WokenCount == LET F[S \in SUBSET Waiters] == IF S = {} THEN 0 ELSE LET w == CHOOSE x \in S : TRUE IN
                     Cardinality({i \in 1..Len(result[w]) : result[w][i] = "woken"}) + F[S \ {w}]
              IN F[Waiters]
NotifyBegun == LET F[S \in SUBSET Notifiers] == IF S = {} THEN 0 ELSE LET n == CHOOSE x \in S : TRUE IN
                     (calls[n] + (IF pc[n] \notin {"lock.acq", "done"} THEN 1 ELSE 0)) + F[S \ {n}]
               IN F[Notifiers]
NotifyAtMostOne == (\A n \in Notifiers : Kind[n] = "notify") => WokenCount <= NotifyBegun
\* notify does wake one if some waiter, asleep when the notifier took the lock, has no expiring timeout  (D5: FAILS on the code as it is)
NotifyWakesOneIfPossible == \A i \in 1..Len(notifyOne) : notifyOne[i].steady # {} => notifyOne[i].woke # {}
\* at quiescence the three semaphores are consistent again: usable after any burst
Quiescent == \A t \in Threads : pc[t] \in {"done", "failed"} \/ (t \in Waiters /\ pc[t] = "wait.acq" /\ t \notin Timed /\ waitsem = 0)
ReusableAfterBurst == (Quiescent /\ ~asserted) =>
       /\ waitsem = 0
       /\ sleeping >= woken
       /\ sleeping - woken = Cardinality({w \in Waiters : pc[w] = "wait.acq"})
=============================================================================
