SPECIFICATION TSpec
CONSTANTS
  Types <- TraceTypes
  Lines <- TraceLinesLit
  MaxCount = 1000000
  BadBytes = "BADBYTES"
  FailModes = {FALSE}
  StrictModes = {FALSE}
INVARIANT Ok
INVARIANT RegIsBalance
CHECK_DEADLOCK FALSE
