---- MODULE MC_Shapes ----
EXTENDS Shapes
====
