---- MODULE MC_SemLock ----
EXTENDS SemLock
====
