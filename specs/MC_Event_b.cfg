SPECIFICATION SpecF
CONSTANTS
  Threads <- T4
  Prog <- P_b
  ClearLocked = TRUE
VIEW View
INVARIANT FlagBinary
INVARIANT Coherent
INVARIANT NoLostWakeup
PROPERTY PeekTruth
