SPECIFICATION Spec
CONSTANTS
  MaxLen = 5
  MaxIters = 2
  MaxChunk = 7
INVARIANT MapEqualsBuiltin
INVARIANT ChunksCoverInOrder
INVARIANT Emit
CHECK_DEADLOCK FALSE
