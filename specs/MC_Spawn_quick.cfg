SPECIFICATION Spec
CONSTANTS
  Slots = {57, 123, 240}
  EnvKeys = {"A", "C"}
  Ends <- MC_Ends
  Methods = {"loky"}
  Launches = {"script", "module"}
INVARIANT NoLeak
INVARIANT SentinelIffGone
INVARIANT ExitFaithful
INVARIANT Emit
CHECK_DEADLOCK FALSE
