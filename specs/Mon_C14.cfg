SPECIFICATION Spec
INVARIANT Ok
CHECK_DEADLOCK FALSE
