---- MODULE TraceLEData ----
(* Placeholder so that the module set parses on its own; checks/exec_trace.py writes the real data module (one recorded
   execution: its key events and the kinds of its tasks) next to a copy of the specifications, one directory per execution. *)
EXTENDS Sequences
Trace == << [w |-> "U", a |-> "pending.set", o |-> "ok", x |-> "", t |-> 0] >>
TraceKind == <<"ok">>
====
