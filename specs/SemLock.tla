---------------------------- MODULE SemLock ----------------------------
(* C14, first sentence.  Semantics of loky.backend.synchronize.{Lock, RLock, Semaphore, BoundedSemaphore}: a POSIX
   named semaphore shared by all processes plus, per process that holds a (pickled copy of the) object, the
   bookkeeping of _multiprocessing.SemLock (count, last owner thread).  Operations are the non-blocking ones, so that
   a TLC behaviour can be replayed deterministically on the real objects from several threads of several processes
   (the parent and loky children that received the object by pickling).                                         *)
EXTENDS Integers, Sequences, FiniteSets, TLC

CONSTANTS Kind,      \* "Lock" | "RLock" | "Sem" | "BSem"
          N,         \* initial value (1 for Lock / RLock)
          Procs, Thr,
          MaxOps

Actors == Procs \X Thr
Max == IF Kind = "Sem" THEN 1000000 ELSE N                \* SEM_VALUE_MAX for plain semaphores

VARIABLES value,       \* the kernel semaphore
          count, owner,\* per process: SemLock.count and last_tid
          out,         \* result of the last operation: "true" | "false" | "ok" | "ValueError" | "AssertionError"
          nops,
          held,        \* ghost: bag of successful acquisitions not yet released, as a function Actors -> Nat
          last         \* history: <<proc, thread, op>>
vars == <<value, count, owner, out, nops, held, last>>
View == <<value, count, owner, out, held, nops>>

Init == /\ value = N /\ count = [p \in Procs |-> 0] /\ owner = [p \in Procs |-> "nobody"]
        /\ out = "none" /\ nops = 0 /\ held = [a \in Actors |-> 0] /\ last = <<>>

IsMine(p, t) == count[p] > 0 /\ owner[p] = t

TryAcquire(p, t) ==
  /\ nops < MaxOps /\ nops' = nops + 1 /\ last' = <<p, t, "acquire">>
  /\ IF Kind = "RLock" /\ IsMine(p, t)
     THEN /\ count' = [count EXCEPT ![p] = @ + 1] /\ out' = "true"
          /\ held' = [held EXCEPT ![<<p, t>>] = @ + 1] /\ UNCHANGED <<value, owner>>
     ELSE IF value > 0
     THEN /\ value' = value - 1 /\ count' = [count EXCEPT ![p] = @ + 1] /\ owner' = [owner EXCEPT ![p] = t]
          /\ out' = "true" /\ held' = [held EXCEPT ![<<p, t>>] = @ + 1]
     ELSE /\ out' = "false" /\ UNCHANGED <<value, count, owner, held>>

Release(p, t) ==
  /\ nops < MaxOps /\ nops' = nops + 1 /\ last' = <<p, t, "release">>
  /\ IF Kind = "RLock"
     THEN IF ~IsMine(p, t) THEN /\ out' = "AssertionError" /\ UNCHANGED <<value, count, owner, held>>
          ELSE /\ out' = "ok" /\ count' = [count EXCEPT ![p] = @ - 1]
               /\ value' = IF count[p] = 1 THEN value + 1 ELSE value
               /\ held' = [held EXCEPT ![<<p, t>>] = @ - 1] /\ UNCHANGED owner
     ELSE IF value >= Max THEN /\ out' = "ValueError" /\ UNCHANGED <<value, count, owner, held>>
          ELSE /\ out' = "ok" /\ value' = value + 1 /\ count' = [count EXCEPT ![p] = @ - 1]
               \* any thread of any process may release a (non recursive) lock or semaphore
               /\ held' = IF held[<<p, t>>] > 0 THEN [held EXCEPT ![<<p, t>>] = @ - 1]
                          ELSE IF \E x \in Actors : held[x] > 0
                          THEN LET a == CHOOSE x \in Actors : held[x] > 0 IN [held EXCEPT ![a] = @ - 1]
                          ELSE held                     \* over-release of a plain semaphore
               /\ UNCHANGED owner

Next == \E p \in Procs, t \in Thr : TryAcquire(p, t) \/ Release(p, t)
Spec == Init /\ [][Next]_vars

-----------------------------------------------------------------------------
Holders == {a \in Actors : held[a] > 0}
TotalHeld == LET F[S \in SUBSET Actors] == IF S = {} THEN 0 ELSE LET a == CHOOSE x \in S : TRUE IN held[a] + F[S \ {a}]
             IN F[Actors]
\* Lock and RLock: at most one holder at any time; RLock: only its owner may hold it several times
MutualExclusion == Kind \in {"Lock", "RLock"} => Cardinality(Holders) <= 1
ReentrantForOwnerOnly == Kind = "Lock" => \A a \in Actors : held[a] <= 1
\* Semaphore(n): never more than n holders (for as long as nobody over-releases a plain semaphore)
AtMostN == Kind \in {"Lock", "RLock", "BSem"} => (value >= 0 /\ value <= N /\ (Kind # "RLock" => TotalHeld = N - value))
\* BoundedSemaphore / Lock refuse over-release: the value never exceeds the initial one
BoundedRefuses == Kind \in {"Lock", "BSem"} => value <= N
\* an RLock is released only by its owner
RLockOwnerOnly == [][ (Kind = "RLock" /\ value' > value) => (\E a \in Actors : held[a] = 1 /\ held'[a] = 0 /\ last' = <<a[1], a[2], "release">>) ]_vars
=============================================================================
