SPECIFICATION Spec
CONSTANTS
  MaxVals <- MC_MaxVals
  Methods = {"loky", "loky_init_main", "spawn", "fork"}
  MaxProcs = 4
  MaxOps = 4
INVARIANT DepthIsParentPlusOne
INVARIANT Bounded
INVARIANT NoForkBelowRoot
PROPERTY RefusedSpawnsNothing
CHECK_DEADLOCK FALSE
