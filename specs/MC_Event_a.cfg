SPECIFICATION SpecF
CONSTANTS
  Threads <- T3
  Prog <- P_a
  ClearLocked = TRUE
VIEW View
INVARIANT FlagBinary
INVARIANT Coherent
INVARIANT NoLostWakeup
PROPERTY PeekTruth
