SPECIFICATION Spec
CONSTANTS
  Types = {"T1", "T2"}
  Tags = {"a", "b"}
  MaxOps = 4
  Tasks = {1}
  NameAtDispatch = TRUE
PROPERTY GlobalTablesUntouched
PROPERTY Scoped
INVARIANT WorkerUsesSubmitTimePickler
CHECK_DEADLOCK FALSE
