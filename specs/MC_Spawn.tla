---- MODULE MC_Spawn ----
EXTENDS Spawn
MC_Ends == {<<"exit", 0>>, <<"exit", 1>>, <<"exit", 3>>, <<"exit", 255>>, <<"signal", 9>>, <<"signal", 11>>, <<"signal", 15>>}
MC_Ends_thorough == MC_Ends \cup {<<"exit", 2>>, <<"exit", 127>>, <<"exit", 128>>, <<"exit", 254>>, <<"signal", 6>>, <<"signal", 7>>, <<"signal", 10>>}   \* (not SIGINT: Python turns it into KeyboardInterrupt, it does not end the process by itself)
====
