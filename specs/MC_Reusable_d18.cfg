SPECIFICATION SpecF
CONSTANTS
  Callers = {"c1", "c2"}
  Size <- Sz12
  Pids = {"p1", "p2", "p3", "p4"}
  MaxTimeout = 0
  HasTimeout = FALSE
  CallbackSubmits = FALSE
  UserShutdown = TRUE
  SpawnUnderLock = TRUE
  MaxCrash = 0
  RecheckAfterWait = TRUE
  WakeAfterResize = TRUE
INVARIANT IdsGrow

