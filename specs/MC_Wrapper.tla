---- MODULE MC_Wrapper ----
EXTENDS Wrapper
====
