---- MODULE MC_MapChunks ----
EXTENDS MapChunks
====
