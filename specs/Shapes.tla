---------------------------- MODULE Shapes ----------------------------
(* C15, fidelity clause: "loky's built-in reducers make bound methods, class methods, method descriptors and
   functools.partial (with keywords) round-trip to equal behaviour".

   A shape is a callable built from a base callable by wrapping it in functools.partial up to MaxDepth times, each layer
   adding positional arguments and/or a keyword.  The meaning of a shape is what calling it returns; base callables are
   canonical: they return <<base, positional args, keyword args>>, so the value a call must produce is computed here:
        Eval(base b, args, kw)            = <<b, args, kw>>
        Eval(partial(s, a, k), args, kw)  = Eval(s, a \o args, k (+) kw)        (call-time keywords win)
   TLC enumerates every shape x probe and emits the expected value; the harness builds the real object, sends it through
   loky.backend.reduction.dumps / loads under both pickler back-ends, calls the COPY and compares with the prediction.  *)
EXTENDS Naturals, Sequences, TLC, Json

CONSTANTS Bases, MaxDepth

PArgs == {<<>>, <<1>>, <<1, 2>>}            \* positional arguments frozen by a partial layer
PKws == {"none", "k", "j"}                  \* keyword frozen by a layer: none, k=7, j=8
Probes == {<<>>, <<5>>}                     \* positional arguments of the probe call
ProbeKws == {"none", "k"}                   \* keyword of the probe call: none, k=9

Layers == [a : PArgs, k : PKws]
Stacks == UNION {[1..n -> Layers] : n \in 0..MaxDepth}     \* layer 1 is the innermost partial

VARIABLES base, stack, probe, pkw
vars == <<base, stack, probe, pkw>>
Init == base \in Bases /\ stack \in Stacks /\ probe \in Probes /\ pkw \in ProbeKws
Next == UNCHANGED vars
Spec == Init /\ [][Next]_vars

\* keyword environment as a function on {"k", "j"}: 0 = absent
KwOf(name, val) == [x \in {"k", "j"} |-> IF x = name THEN val ELSE 0]
NoKw == [x \in {"k", "j"} |-> 0]
LayerKw(l) == IF l.k = "k" THEN KwOf("k", 7) ELSE IF l.k = "j" THEN KwOf("j", 8) ELSE NoKw
Merge(inner, outer) == [x \in {"k", "j"} |-> IF outer[x] # 0 THEN outer[x] ELSE inner[x]]
\* fold the layers from the outermost (last) to the innermost (first)
RECURSIVE Fold(_, _, _)
Fold(i, args, kw) == IF i = 0 THEN <<args, kw>>
                     ELSE Fold(i - 1, stack[i].a \o args, Merge(LayerKw(stack[i]), kw))
Expected == LET r == Fold(Len(stack), probe, IF pkw = "k" THEN KwOf("k", 9) ELSE NoKw) IN <<base, r[1], r[2]>>

\* sanity of the semantics itself: call-time keywords override frozen ones, positional order is inner-to-outer then call
KeywordOverride == pkw = "k" => Expected[3]["k"] = 9
PositionalOrder == Len(Expected[2]) >= Len(probe) /\ SubSeq(Expected[2], Len(Expected[2]) - Len(probe) + 1, Len(Expected[2])) = probe
Emit == PrintT(ToJson(<<"SHAPE", base, [i \in 1..Len(stack) |-> <<stack[i].a, stack[i].k>>], probe, pkw, Expected[2], Expected[3]>>))
=============================================================================
