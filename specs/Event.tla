---------------------------- MODULE Event ----------------------------
(* C14, Event clauses.  loky.backend.synchronize.Event = a Condition (abstract here: sleep / notify_all / timeout) and a
   flag semaphore that holds 1 while the event is set.  ONE STEP PER OPERATION ON THE FLAG AND ON THE CONDITION'S LOCK,
   so that (a) TLC explores every interleaving of set / clear / is_set / wait(timeout) of a few threads, including the
   "peek" windows in which the flag is transiently 0 although the event is set, and (b) the recorded operations of the
   real Event methods running on instrumented semaphores (engine/sim/cond_sim.py) can be validated against it
   (Trace_Event.tla).

   Prog[t] is the sequence of calls of thread t: "set", "clear", "is_set", "wait" (no timeout), "waitT" (with one).
   pc[t] names the pending operation:
     is_set : lock.acq -> flag.try -> (got: flag.rel ->) lock.rel -> ret
     set    : lock.acq -> flag.try -> flag.rel -> notify -> lock.rel -> ret
     clear  : lock.acq -> flag.try -> lock.rel -> ret          (ClearLocked = FALSE: flag.try only -- the seeded change C14_b)
     wait   : lock.acq -> flag.try -> (got: flag.rel | else: sleep (releases the lock) -> asleep -> lock.acq2) -> flag.try2
              -> (got: flag.rel2 ->) lock.rel -> ret
   `logical` is the ghost the property talks about: TRUE from the moment a set() releases the flag, FALSE from the
   moment a clear() tries to take it.                                                                              *)
EXTENDS Naturals, Sequences, FiniteSets, TLC

CONSTANTS Threads, Prog, ClearLocked

VARIABLES lock, flag, asleep, notified, pc, ci, got, res, logical, last
vars == <<lock, flag, asleep, notified, pc, ci, got, res, logical, last>>
View == <<lock, flag, asleep, notified, pc, ci, got, res, logical>>

Call(t) == IF ci[t] <= Len(Prog[t]) THEN Prog[t][ci[t]] ELSE "none"
First(m) == IF m = "clear" /\ ~ClearLocked THEN "flag.try" ELSE "lock.acq"
Start(t, i) == IF i <= Len(Prog[t]) THEN First(Prog[t][i]) ELSE "done"

Init == /\ lock = "free" /\ flag = 0 /\ asleep = {} /\ notified = {} /\ logical = FALSE
        /\ ci = [t \in Threads |-> 1] /\ pc = [t \in Threads |-> Start(t, 1)]
        /\ got = [t \in Threads |-> FALSE] /\ res = [t \in Threads |-> <<>>] /\ last = <<>>

Goto(t, l) == pc' = [pc EXCEPT ![t] = l]

LockAcq(t) == /\ pc[t] \in {"lock.acq", "lock.acq2"} /\ lock = "free" /\ lock' = t
              /\ Goto(t, IF pc[t] = "lock.acq" THEN "flag.try" ELSE "flag.try2")
              /\ last' = <<t, "lock.acq", "ok">> /\ UNCHANGED <<flag, asleep, notified, ci, got, res, logical>>

\* acquire(False) on the flag: first peek of is_set / wait, the take of set / clear, second peek of wait
FlagTry(t) ==
  /\ pc[t] \in {"flag.try", "flag.try2"}
  /\ LET ok == flag > 0 IN
     /\ flag' = IF ok THEN flag - 1 ELSE flag
     /\ got' = [got EXCEPT ![t] = ok]
     /\ last' = <<t, "flag.try", IF ok THEN "ok" ELSE "fail">>
     /\ logical' = IF Call(t) = "clear" THEN FALSE ELSE logical
     /\ Goto(t, CASE Call(t) = "set" -> "flag.rel"
                  [] Call(t) = "clear" -> (IF ClearLocked THEN "lock.rel" ELSE "ret")
                  [] Call(t) = "is_set" -> (IF ok THEN "flag.rel" ELSE "lock.rel")
                  [] pc[t] = "flag.try" -> (IF ok THEN "flag.rel" ELSE "sleep")          \* wait / waitT, first peek
                  [] OTHER -> (IF ok THEN "flag.rel2" ELSE "lock.rel"))                  \* wait / waitT, second peek
  /\ UNCHANGED <<lock, asleep, notified, ci, res>>

FlagRel(t) == /\ pc[t] \in {"flag.rel", "flag.rel2"} /\ flag' = flag + 1
              /\ logical' = IF Call(t) = "set" THEN TRUE ELSE logical
              /\ Goto(t, CASE Call(t) = "set" -> "notify"
                           [] Call(t) = "is_set" -> "lock.rel"
                           [] pc[t] = "flag.rel" -> "flag.try2"
                           [] OTHER -> "lock.rel")
              /\ last' = <<t, "flag.rel", "ok">> /\ UNCHANGED <<lock, asleep, notified, ci, got, res>>

\* Condition.notify_all under the lock: every thread asleep is handed a wake-up
Notify(t) == /\ pc[t] = "notify" /\ notified' = notified \cup asleep /\ Goto(t, "lock.rel")
             /\ last' = <<t, "notify", "ok">> /\ UNCHANGED <<lock, flag, asleep, ci, got, res, logical>>

\* Condition.wait: releases the lock and sleeps
Sleep(t) == /\ pc[t] = "sleep" /\ lock = t /\ lock' = "free" /\ asleep' = asleep \cup {t} /\ Goto(t, "asleep")
            /\ last' = <<t, "lock.rel", "ok">> /\ UNCHANGED <<flag, notified, ci, got, res, logical>>
\* ... until it is notified, or (waitT) its timeout fires -- at any moment
Wake(t) == /\ pc[t] = "asleep" /\ (t \in notified \/ Call(t) = "waitT")
           /\ asleep' = asleep \ {t} /\ notified' = notified \ {t} /\ Goto(t, "lock.acq2")
           /\ last' = <<t, "wake", IF t \in notified THEN "ok" ELSE "timeout">>
           /\ UNCHANGED <<lock, flag, ci, got, res, logical>>

LockRel(t) == /\ pc[t] = "lock.rel" /\ lock = t /\ lock' = "free" /\ Goto(t, "ret")
              /\ last' = <<t, "lock.rel", "ok">> /\ UNCHANGED <<flag, asleep, notified, ci, got, res, logical>>

\* the call returns: is_set / wait return the outcome of their last peek
Ret(t) == /\ pc[t] = "ret"
          /\ res' = [res EXCEPT ![t] = Append(@, IF Call(t) \in {"is_set", "wait", "waitT"} THEN got[t] ELSE FALSE)]
          /\ ci' = [ci EXCEPT ![t] = @ + 1] /\ Goto(t, Start(t, ci[t] + 1))
          /\ last' = <<t, "ret", IF Call(t) \in {"is_set", "wait", "waitT"} /\ got[t] THEN "True" ELSE "False">>
          /\ UNCHANGED <<lock, flag, asleep, notified, got, logical>>

Step(t) == LockAcq(t) \/ FlagTry(t) \/ FlagRel(t) \/ Notify(t) \/ Sleep(t) \/ Wake(t) \/ LockRel(t) \/ Ret(t)
Next == \E t \in Threads : Step(t)
Spec == Init /\ [][Next]_vars

-----------------------------------------------------------------------------
FlagBinary == flag <= 1
\* whenever nobody holds the lock, the flag says what the history of set() / clear() says
Coherent == lock = "free" => ((flag = 1) <=> logical)
\* the result of is_set() / wait() is the truth at the moment of its deciding peek
PeekTruth == [][ \A t \in Threads : (FlagTry(t) /\ Call(t) \in {"is_set", "wait", "waitT"} /\ lock = t
                                      /\ (Call(t) = "is_set" \/ pc[t] = "flag.try2")) => (got'[t] <=> logical) ]_vars
\* no lost wake-up: nobody stays asleep once the event is set, unless the set() in progress has not notified yet
NoLostWakeup == (logical /\ (asleep \ notified) # {}) => \E s \in Threads : pc[s] \in {"notify"} \/ (pc[s] = "flag.rel" /\ Call(s) = "set")
\* every run ends with every thread done, or asleep in an untimed wait on an event that is not set
Terminal == \A t \in Threads : pc[t] = "done" \/ (pc[t] = "asleep" /\ Call(t) = "wait" /\ t \notin notified /\ ~logical)
Finished == Terminal /\ UNCHANGED vars
SpecF == Init /\ [][Next \/ Finished]_vars
=============================================================================
