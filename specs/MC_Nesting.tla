---- MODULE MC_Nesting ----
EXTENDS Nesting
MC_MaxVals == {-1, 0, 1, 2, 3}
====
