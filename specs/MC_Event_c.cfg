SPECIFICATION SpecF
CONSTANTS
  Threads <- T3c
  Prog <- P_c
  ClearLocked = TRUE
VIEW View
INVARIANT FlagBinary
INVARIANT Coherent
INVARIANT NoLostWakeup
PROPERTY PeekTruth
