---------------------------- MODULE MC_Condition ----------------------------
EXTENDS Condition
\* quick: one timed waiter, one steady waiter, one notify()     (the D5 configuration)
K_a == [n \in {"N"} |-> "notify"]
\* two timed waiters + notify_all, two rounds (bursts)
K_b == [n \in {"N"} |-> "notify_all"]
\* two notifiers of different kinds
K_c == [n \in {"N", "M"} |-> IF n = "N" THEN "notify" ELSE "notify_all"]
=============================================================================
