SPECIFICATION SpecF
CONSTANTS
  Pids = {p1, p2}
  MaxW = 1
  K = 2
  Kind <- K2_ok
  QSize = 1
  MaxLeak = 0
  MaxCrash = 0
  MaxTimeout = 1
  MaxCancel = 0
  HasTimeout = TRUE
  FinalOps = {"del", "exit"}
  InitFails = {}
  WakeAfterSpawn = TRUE
  KeepRefs = TRUE
  SafeFail = TRUE
  CancelWakes = TRUE
  JoinWatches = TRUE
  CloseReaderOnKill = TRUE
  ExitChecked = TRUE
SYMMETRY Perm
INVARIANT AtMostOnce
INVARIANT CancelMeansNeverRun
INVARIANT RightFuture
INVARIANT SlotConservation
INVARIANT BoundedParallelism
INVARIANT BrokenTotal
INVARIANT TimeoutNeverBreaks
INVARIANT CleanHandshakeOnly
INVARIANT NoTimeoutWhileHolding
