SPECIFICATION Spec
CONSTANTS
  Waiters = {"a", "b"}
  Timed = {"a"}
  Notifiers = {"N"}
  Kind <- K_a
  Reps = 1
VIEW View
INVARIANT NoInternalAssert
INVARIANT MutualExclusion
INVARIANT WaitReturnsHoldingLock
INVARIANT FalseOnlyAfterTimeout
INVARIANT NotifyAllWakesAll
INVARIANT NotifyAtMostOne
INVARIANT ReusableAfterBurst

CHECK_DEADLOCK FALSE
