SPECIFICATION Spec
CONSTANTS
  OsVals = {0, 1, 2, 3, 4, 8, 64}
  AffKinds = {"sched", "psutil_absent", "psutil_notimpl", "none"}
  AffVals = {1, 2, 3, 4, 8, 64}
  CgKinds = {"none", "v2max", "v2quota", "v1", "v1neg", "v1zero"}
  QP <- MC_QP_thorough
  EnvVals <- MC_Env_thorough
  ProbeVals <- MC_Probe
  MaxCalls = 3
  Emitting = TRUE
INVARIANT Agree
INVARIANT AtLeastOne
INVARIANT ProbeOnce
INVARIANT AtMostOneWarning
INVARIANT LogicalIsMin
INVARIANT Emit
CHECK_DEADLOCK FALSE
