---------------------------- MODULE CpuCount ----------------------------
(* C17.  loky.backend.context.cpu_count over its whole configuration space.

   Two independent descriptions are kept side by side:
     * Transcribed(...)  follows the code of cpu_count / _cpu_count_user / _cpu_count_cgroup /
                         _cpu_count_affinity / _count_physical_cores step by step (incl. the cache);
     * Expected(...)     is the property as stated ("max(1, min(OS count, affinity size,
                         ceil(quota/period) when a positive quota is set, the override))", physical-core rule,
                         exactly one warning).
   TLC checks that they agree on every state (invariant Agree) and emits every complete history as a
   test vector (Emit) that the conformance harness replays into the real function.                    *)
EXTENDS Integers, Sequences, FiniteSets, TLC, Json

CONSTANTS OsVals,      \* values returned by os.cpu_count(); 0 stands for None
          AffKinds,    \* "sched" (os.sched_getaffinity works), "psutil_absent" (no os API, psutil answers),
                       \* "psutil_notimpl" (os API raises NotImplementedError, psutil answers), "none" (nobody answers)
          AffVals,     \* sizes of the affinity mask
          CgKinds,     \* "none", "v2max", "v2quota", "v1", "v1neg" (quota -1), "v1zero" (quota 0)
          QP,          \* set of <<quota, period>> pairs used by v2quota / v1
          EnvVals,     \* LOKY_MAX_CPU_COUNT: <<FALSE, 0>> = absent, <<TRUE, v>> = set to v
          ProbeVals,   \* physical core probe: n >= 1 success, 0 = "found 0 cores", -1 = raises
          MaxCalls,    \* length of a history of cpu_count calls in one process
          Emitting     \* TRUE: print every complete history as a test vector

VARIABLES cfg, cache, probes, calls
vars == <<cfg, cache, probes, calls>>

Cfgs == [os: OsVals, affk: AffKinds, affn: AffVals, cg: CgKinds, qp: QP, env: EnvVals, probe: ProbeVals]

\* normalise don't-care fields so that equivalent configurations are a single state
Norm(c) == /\ (c.affk = "none" => c.affn = CHOOSE x \in AffVals : \A y \in AffVals : x <= y)
           /\ (c.cg \notin {"v2quota", "v1"} => c.qp = CHOOSE x \in QP : TRUE)

NoCache == -1   \* physical_cores_cache is None
NotFound == 0   \* physical_cores_cache == "not found"
Min(S) == CHOOSE x \in S : \A y \in S : x <= y
Max2(a, b) == IF a >= b THEN a ELSE b
Min2(a, b) == IF a <= b THEN a ELSE b
Ceil(q, p) == (q + p - 1) \div p

-----------------------------------------------------------------------------
(* ---- the code, transcribed ---- *)
T_os(c) == IF c.os = 0 THEN 1 ELSE c.os                         \* os.cpu_count() or 1
T_aff(c) == IF c.affk = "none" THEN T_os(c) ELSE c.affn        \* sched / psutil fallback / give up
T_cgroup(c) ==
  LET isMax == c.cg \in {"none", "v2max"}                     \* cpu_quota_us == "max"
      quota == CASE c.cg = "v1neg"  -> -1
                 [] c.cg = "v1zero" -> 0
                 [] OTHER           -> c.qp[1]
      period == IF c.cg \in {"v2quota", "v1"} THEN c.qp[2] ELSE 100000
  IN IF isMax THEN T_os(c)
     ELSE IF quota > 0 /\ period > 0 THEN Ceil(quota, period) ELSE T_os(c)
T_env(c) == IF ~c.env[1] THEN T_os(c) ELSE c.env[2]        \* int(os.environ.get(..., os_cpu_count))
T_user(c) == Min2(T_aff(c), Min2(T_cgroup(c), T_env(c)))
T_aggregate(c) == Max2(Min2(T_os(c), T_user(c)), 1)

\* one call: returns <<ret, warned, cache', probes'>>
T_call(c, phys, ch, pr) ==
  IF ~phys THEN <<T_aggregate(c), FALSE, ch, pr>>
  ELSE IF T_user(c) < T_os(c) THEN <<Max2(T_user(c), 1), FALSE, ch, pr>>
  ELSE IF ch # NoCache                                          \* cached (a number or "not found")
       THEN IF ch # NotFound THEN <<ch, FALSE, ch, pr>> ELSE <<T_aggregate(c), FALSE, ch, pr>>
  ELSE IF c.probe >= 1 THEN <<c.probe, FALSE, c.probe, pr + 1>>
  ELSE <<T_aggregate(c), TRUE, NotFound, pr + 1>>              \* ValueError(<1) or probe raised: warn once

-----------------------------------------------------------------------------
(* ---- the property, stated independently ---- *)
E_os(c) == IF c.os = 0 THEN 1 ELSE c.os
E_limits(c) == (IF c.affk # "none" THEN {c.affn} ELSE {})
          \cup (IF c.cg \in {"v2quota", "v1"} /\ c.qp[1] > 0 THEN {Ceil(c.qp[1], c.qp[2])} ELSE {})
          \cup (IF c.env[1] THEN {c.env[2]} ELSE {})
E_logical(c) == Max2(1, Min({E_os(c)} \cup E_limits(c)))
E_userLimited(c) == \E x \in E_limits(c) : x < E_os(c)
\* expected return of the k-th call of a history (h = sequence of phys flags)
E_ret(c, phys) == IF ~phys \/ E_userLimited(c) \/ c.probe < 1 THEN E_logical(c) ELSE c.probe
\* a call warns iff it is the first physical call of the process that reaches a failing detection
E_warn(c, h, k) == /\ h[k] /\ ~E_userLimited(c) /\ c.probe < 1
                   /\ \A j \in 1..(k-1) : ~h[j]

-----------------------------------------------------------------------------
Init == /\ cfg \in {c \in Cfgs : Norm(c)}
        /\ cache = NoCache /\ probes = 0 /\ calls = <<>>

Call(phys) ==
  /\ Len(calls) < MaxCalls
  /\ LET r == T_call(cfg, phys, cache, probes)
     IN /\ calls' = Append(calls, [phys |-> phys, ret |-> r[1], warn |-> r[2]])
        /\ cache' = r[3] /\ probes' = r[4]
  /\ UNCHANGED cfg

CallLogical == Call(FALSE)
CallPhysical == Call(TRUE)
Next == CallLogical \/ CallPhysical
Spec == Init /\ [][Next]_vars

-----------------------------------------------------------------------------
Phys(h) == [k \in 1..Len(h) |-> h[k].phys]
Agree == \A k \in 1..Len(calls) :
           /\ calls[k].ret = E_ret(cfg, calls[k].phys)
           /\ calls[k].warn = E_warn(cfg, Phys(calls), k)
AtLeastOne == \A k \in 1..Len(calls) : calls[k].ret >= 1
ProbeOnce == probes <= 1                               \* detection is cached: at most one probe per process
AtMostOneWarning == Cardinality({k \in 1..Len(calls) : calls[k].warn}) <= 1
LogicalIsMin ==                                        \* direct reading of "minimum of all applicable limits"
  \A k \in 1..Len(calls) : ~calls[k].phys =>
      /\ calls[k].ret <= Max2(1, E_os(cfg))
      /\ \A x \in E_limits(cfg) : calls[k].ret <= Max2(1, x)
      /\ calls[k].ret \in {1} \cup {E_os(cfg)} \cup E_limits(cfg)

Emit == (Emitting /\ Len(calls) = MaxCalls) =>
           PrintT(ToJson(<<"VEC", cfg.os, cfg.affk, cfg.affn, cfg.cg, cfg.qp[1], cfg.qp[2], cfg.env[1], cfg.env[2], cfg.probe,
                    [k \in 1..Len(calls) |-> <<calls[k].phys, calls[k].ret, calls[k].warn>>]>>))
=============================================================================
