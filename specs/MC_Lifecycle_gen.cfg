SPECIFICATION Spec
CONSTANTS
  MaxLen = 2
  CloseReaderOnKill = TRUE
INVARIANT Emit
CHECK_DEADLOCK FALSE
