SPECIFICATION Spec
CONSTANTS
  Bases = {"bound", "classm", "static_func", "descr", "wrapper"}
  MaxDepth = 2
INVARIANT KeywordOverride
INVARIANT PositionalOrder
INVARIANT Emit
CHECK_DEADLOCK FALSE
