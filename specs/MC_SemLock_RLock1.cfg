SPECIFICATION Spec
CONSTANTS
  Kind = "RLock"
  N = 1
  Procs = {"P0", "P1"}
  Thr = {"t1", "t2"}
  MaxOps = 7
VIEW View
INVARIANT MutualExclusion
INVARIANT ReentrantForOwnerOnly
INVARIANT AtMostN
INVARIANT BoundedRefuses
PROPERTY RLockOwnerOnly
CHECK_DEADLOCK FALSE
