SPECIFICATION SpecF
CONSTANTS
  Callers = {"c1", "c2"}
  Size <- Sz21
  Pids = {"p1", "p2", "p3", "p4"}
  MaxTimeout = 0
  HasTimeout = FALSE
  CallbackSubmits = TRUE
  UserShutdown = FALSE
  SpawnUnderLock = TRUE
  MaxCrash = 0
  RecheckAfterWait = TRUE
  WakeAfterResize = TRUE
INVARIANT IdsGrow

