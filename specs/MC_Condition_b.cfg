SPECIFICATION Spec
CONSTANTS
  Waiters = {"a", "b"}
  Timed = {"a", "b"}
  Notifiers = {"N"}
  Kind <- K_b
  Reps = 2
VIEW View
INVARIANT NoInternalAssert
INVARIANT MutualExclusion
INVARIANT WaitReturnsHoldingLock
INVARIANT FalseOnlyAfterTimeout
INVARIANT NotifyAllWakesAll
INVARIANT NotifyAtMostOne
INVARIANT ReusableAfterBurst
INVARIANT NotifyWakesOneIfPossible
CHECK_DEADLOCK FALSE
