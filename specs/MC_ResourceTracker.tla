---------------------------- MODULE MC_ResourceTracker ----------------------------
EXTENDS ResourceTracker
MC_Types == {"folder", "file", "semlock"}
Cmds == {"REGISTER", "UNREGISTER", "MAYBE_UNLINK"}
ValidLines(names) == {<<c>> \o n \o <<t>> : c \in Cmds, n \in names, t \in MC_Types}
Odd == { <<"PROBE", "0", "noop">>,            \* liveness probe of the client
         <<"REGISTER", "a", "bogus">>,        \* unknown resource type
         <<"FROB", "a", "file">>,             \* unknown command
         <<"REGISTER", "a">>,                 \* truncated: type field missing -> 'a' is taken as the type
         <<"GARBAGE">>,                       \* no separator at all
         <<"">>,                              \* empty line
         <<"BADBYTES", "a", "file">>,         \* bytes that do not decode
         <<"REGISTER", "file">>,              \* empty name, valid type: a legal request on the name ''
         <<"MAYBE_UNLINK", "file">> }
MC_Lines_quick == ValidLines({<<"a">>, <<"b", "c">>}) \cup Odd
MC_Lines_thorough == ValidLines({<<"a">>, <<"b", "c">>, <<"file">>, <<"d", "e", "semlock">>}) \cup Odd
           \cup {<<"UNREGISTER", "file">>, <<"REGISTER", "a", "b", "c", "d", "folder">>, <<"MAYBE_UNLINK", "a", "b", "c", "d", "folder">>}
=============================================================================
