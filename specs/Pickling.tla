---------------------------- MODULE Pickling ----------------------------
(* C15.  Scoping of serialisation customisation in loky.backend.reduction.

   Three process-wide registries: copyreg's table (`copyregT`), the class-level table of the selected pickler class
   (`clsT`, cloudpickle back-end), loky's own table (`lokyT`); and the back-end name (`pickler`).  Every dumps() builds a
   pickler whose private table is   base(back-end)  (+)  lokyT  (+)  reducers passed to that call   -- later entries win.
   The property: building / using a pickler with reducers changes nothing but the bytes produced by that pickler.

   Second part: the pickler name travels with a task.  submit() happens in a user thread, the call item is built later by
   the manager thread (Dispatch), the worker switches to the name found in the item and pickles the result with it.  The
   property wants the name in force at submit time.  `NameAtDispatch` selects where the code captures it (D9).     *)
EXTENDS Naturals, FiniteSets, Sequences, TLC

CONSTANTS Types, Tags, MaxOps, Tasks, NameAtDispatch

Backends == {"cloudpickle", "pickle"}
NoTag == "default"
Maps == [Types -> Tags \cup {NoTag}]              \* a reducer map: NoTag = no entry for that type

VARIABLES pickler, copyregT, clsT, lokyT,         \* process-wide state
          out,                                    \* result of the last dumps(): the tag each type was reduced with
          last, nops,
          nameAtSubmit, nameInItem, workerName    \* per task: pickler name at submit, in the call item, used by the worker
vars == <<pickler, copyregT, clsT, lokyT, out, last, nops, nameAtSubmit, nameInItem, workerName>>

Empty == [t \in Types |-> NoTag]
Init == /\ pickler = "cloudpickle" /\ copyregT = Empty /\ clsT = Empty /\ lokyT = Empty
        /\ out = Empty /\ last = <<"init">> /\ nops = 0
        /\ nameAtSubmit = [t \in Tasks |-> "none"] /\ nameInItem = [t \in Tasks |-> "none"] /\ workerName = [t \in Tasks |-> "none"]

Over(a, b) == [t \in Types |-> IF b[t] # NoTag THEN b[t] ELSE a[t]]      \* b wins
Base == IF pickler = "cloudpickle" THEN Over(copyregT, clsT) ELSE copyregT
Tick == nops < MaxOps /\ nops' = nops + 1
TaskVars == <<nameAtSubmit, nameInItem, workerName>>

SetPickler(n) == /\ Tick /\ pickler' = n /\ last' = <<"set_pickler", n>> /\ UNCHANGED <<copyregT, clsT, lokyT, out, TaskVars>>
\* dumps(obj, reducers=r): a new pickler instance with a private table
Dumps(r) == /\ Tick /\ out' = Over(Over(Base, lokyT), r) /\ last' = <<"dumps", r>>
            /\ UNCHANGED <<pickler, copyregT, clsT, lokyT, TaskVars>>
\* the user (not loky) registers a reducer in copyreg: the environment
UserCopyreg(t, g) == /\ Tick /\ copyregT' = [copyregT EXCEPT ![t] = g] /\ last' = <<"copyreg", t, g>>
                     /\ UNCHANGED <<pickler, clsT, lokyT, out, TaskVars>>
\* loky.backend.reduction.register: the one legitimate writer of lokyT
LokyRegister(t, g) == /\ Tick /\ lokyT' = [lokyT EXCEPT ![t] = g] /\ last' = <<"loky_register", t, g>>
                      /\ UNCHANGED <<pickler, copyregT, clsT, out, TaskVars>>

Submit(k) == /\ Tick /\ nameAtSubmit[k] = "none" /\ nameAtSubmit' = [nameAtSubmit EXCEPT ![k] = pickler]
             /\ nameInItem' = IF NameAtDispatch THEN nameInItem ELSE [nameInItem EXCEPT ![k] = pickler]
             /\ last' = <<"submit", k>> /\ UNCHANGED <<pickler, copyregT, clsT, lokyT, out, workerName>>
Dispatch(k) == /\ Tick /\ nameAtSubmit[k] # "none" /\ workerName[k] = "none" /\ (NameAtDispatch => nameInItem[k] = "none")
               /\ nameInItem' = IF NameAtDispatch THEN [nameInItem EXCEPT ![k] = pickler] ELSE nameInItem
               /\ workerName' = [workerName EXCEPT ![k] = IF NameAtDispatch THEN pickler ELSE nameInItem[k]]
               /\ last' = <<"dispatch", k>> /\ UNCHANGED <<pickler, copyregT, clsT, lokyT, out, nameAtSubmit>>

Next == \/ \E n \in Backends : SetPickler(n)
        \/ \E r \in Maps : Dumps(r)
        \/ \E t \in Types, g \in Tags : UserCopyreg(t, g) \/ LokyRegister(t, g)
        \/ \E k \in Tasks : Submit(k) \/ Dispatch(k)
Spec == Init /\ [][Next]_vars

-----------------------------------------------------------------------------
\* reducers passed to a pickler change nothing but that pickler's output
GlobalTablesUntouched == [][ (\E r \in Maps : Dumps(r)) => UNCHANGED <<copyregT, clsT, lokyT, pickler>> ]_vars
\* user reducers win over loky's, which win over the back-end's
Scoped == [][ \A r \in Maps : Dumps(r) => \A t \in Types :
                out'[t] = IF r[t] # NoTag THEN r[t] ELSE IF lokyT[t] # NoTag THEN lokyT[t] ELSE Base[t] ]_vars
\* the worker uses the pickler selected when the task was submitted  (fails when NameAtDispatch: D9)
WorkerUsesSubmitTimePickler == \A k \in Tasks : workerName[k] # "none" => workerName[k] = nameAtSubmit[k]
=============================================================================
