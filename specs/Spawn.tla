---------------------------- MODULE Spawn ----------------------------
(* C18 (process-level clauses).  What a loky worker inherits and what the parent learns about its end.

   Configuration: descriptors open in the parent beyond stdio (slot -> "inh" | "noinh" | "absent"), the parent's
   environment, the env= overlay (key -> "absent" | "set" | "empty"), the way the child ends (exit code or signal), the
   start method.  Prediction (the property): the child sees none of the parent's extra descriptors; its environment
   is the parent's overlaid with env=; exitcode = status, or -signal; the sentinel becomes ready exactly when the process
   is gone; under "loky" the parent's __main__ is not executed again.
   TLC enumerates the configuration space and emits each configuration with its prediction; each is executed with real
   processes (engine/real/spawn_parent.py).                                                                    *)
EXTENDS Integers, FiniteSets, Sequences, TLC, Json

CONSTANTS Slots, EnvKeys, Ends, Methods,
          Launches      \* how the parent program was started: "script" (python file.py) | "module" (python -m pkg.mod); no prediction depends on it

FdStates == {"absent", "inh", "noinh"}
OvStates == {"absent", "set", "empty"}
\* parent environment: keys "A" and "B" are set in the parent ("pa", "pb"); "C" is not
ParentEnv(k) == IF k = "A" THEN "pa" ELSE IF k = "B" THEN "pb" ELSE "<unset>"

VARIABLES fds, ov, end, method, launch, phase, childFds, childEnv, exitcode, sentinelReady, mainRuns
vars == <<fds, ov, end, method, launch, phase, childFds, childEnv, exitcode, sentinelReady, mainRuns>>

Init == /\ fds \in [Slots -> FdStates] /\ ov \in [EnvKeys -> OvStates] /\ end \in Ends /\ method \in Methods /\ launch \in Launches
        /\ phase = "parent" /\ childFds = {} /\ childEnv = [k \in EnvKeys |-> "?"] /\ exitcode = 1000
        /\ sentinelReady = FALSE /\ mainRuns = 1

Start == /\ phase = "parent" /\ phase' = "running"
         /\ childFds' = {}                                             \* nothing beyond stdio and loky's own handles
         /\ childEnv' = [k \in EnvKeys |-> CASE ov[k] = "set" -> "ov" [] ov[k] = "empty" -> "" [] OTHER -> ParentEnv(k)]
         /\ mainRuns' = IF method = "loky_init_main" THEN 2 ELSE 1
         /\ UNCHANGED <<fds, ov, end, method, launch, exitcode, sentinelReady>>
Finish == /\ phase = "running" /\ phase' = "ended"
          /\ exitcode' = IF end[1] = "exit" THEN end[2] ELSE 0 - end[2]
          /\ sentinelReady' = TRUE
          /\ UNCHANGED <<fds, ov, end, method, launch, childFds, childEnv, mainRuns>>
Next == Start \/ Finish
Spec == Init /\ [][Next]_vars

NoLeak == childFds = {}
SentinelIffGone == sentinelReady <=> phase = "ended"
ExitFaithful == phase = "ended" => (end[1] = "exit" => exitcode = end[2]) /\ (end[1] = "signal" => exitcode = 0 - end[2])
Emit == phase = "ended" =>
          PrintT(ToJson(<<"VEC", [s \in Slots |-> fds[s]], [k \in EnvKeys |-> ov[k]], end, method,
                          [k \in EnvKeys |-> childEnv[k]], exitcode, mainRuns, launch>>))
=============================================================================
