---------------------------- MODULE Wrapper ----------------------------
(* C16.  Typestate of loky.cloudpickle_wrapper.wrap_non_picklable_objects.

   An object value is [kind, st, w, viaClass]: `kind` in Kinds, `st` its mutable state (a small counter: closures with
   a nonlocal counter, instances with an attribute), `w` the stack of wrappers around it (sequence of keep_wrapper
   flags, outermost first), `viaClass` = it was built by calling a wrapped class.
   Two handles are followed: `orig` (the object the user holds) and `copy` (what a plain-pickle round trip of orig --
   or of copy itself -- last produced).  Every step's observable projection (is it a wrapper, keep flag of the outer
   wrapper, callable(x), state seen through a call / an attribute read) is what the conformance harness compares with
   the real objects after replaying the same history (engine/pure/wrapper_child.py).                        *)
EXTENDS Naturals, Sequences, TLC

CONSTANTS Kinds, MaxSt, MaxDepth, MaxSteps,
          Protos      \* pickle protocols of the plain-pickle round trip (the wrapped payload must not depend on it)

\* kinds: functions (lambda, closure with a counter, recursive), instances (cinst: callable, inst: not, icinst: callable
\* through a __call__ it INHERITS from a base class), classes (ccls / cls / icls likewise) and the instances built by
\* calling a wrapped class (*_inst); sinst: instance of a class with __slots__ and no __getstate__ (cloudpickle serialises
\* it at its own protocol only), bufinst: instance holding a pickle.PickleBuffer (in-band at protocol 5 only)
Callable(k) == k \in {"lambda", "closure", "rec", "cinst", "ccls_inst", "icinst", "icls_inst"}
Stateful(k) == k \in {"closure", "cinst", "inst", "ccls_inst", "cls_inst", "icinst", "icls_inst", "sinst", "bufinst"}
IsClass(k) == k \in {"ccls", "cls", "icls"}
InstKind(k) == IF k = "ccls" THEN "ccls_inst" ELSE IF k = "icls" THEN "icls_inst" ELSE "cls_inst"
None == [kind |-> "none", st |-> 0, w |-> <<>>, viaClass |-> FALSE]

VARIABLES orig, copy, last, out, steps
vars == <<orig, copy, last, out, steps>>

Init == /\ orig \in {[kind |-> k, st |-> 0, w |-> <<>>, viaClass |-> FALSE] : k \in Kinds}
        /\ copy = None /\ last = <<"init">> /\ out = "none" /\ steps = 0

Keep(s) == SelectSeq(s, LAMBDA b : b)
\* a plain pickle round trip: every wrapper with keep_wrapper=False disappears, the others are rebuilt; the state travels
RT(h) == [h EXCEPT !.w = Keep(h.w), !.viaClass = FALSE]

Tick == steps < MaxSteps /\ steps' = steps + 1

Wrap(keep) == /\ Tick
              /\ (Len(orig.w) < MaxDepth /\ ~IsClass(orig.kind)) \/ (IsClass(orig.kind) /\ orig.w = <<>>)
              /\ orig' = [orig EXCEPT !.w = <<keep>> \o @]
              /\ last' = <<"wrap", keep>> /\ out' = "ok" /\ UNCHANGED copy
\* calling a wrapped class builds an instance wrapped the same way
Instantiate(s0) == /\ Tick /\ IsClass(orig.kind) /\ orig.w # <<>>
                   /\ orig' = [kind |-> InstKind(orig.kind), st |-> s0, w |-> orig.w, viaClass |-> TRUE]
                   /\ last' = <<"instantiate", s0>> /\ out' = "ok" /\ UNCHANGED copy
RoundTrip(which, p) == /\ Tick
                    /\ LET h == IF which = "orig" THEN orig ELSE copy IN
                       /\ h.kind # "none" /\ h.w # <<>> /\ ~IsClass(h.kind)
                       /\ copy' = RT(h)
                    /\ last' = <<"roundtrip", which, p>> /\ out' = "ok" /\ UNCHANGED orig
\* call x(arg): stateful kinds add arg to their state and return it; stateless ones return a constant
Call(which, arg) ==
  /\ Tick
  /\ LET h == IF which = "orig" THEN orig ELSE copy IN
     /\ h.kind # "none" /\ ~IsClass(h.kind) /\ Callable(h.kind) /\ h.st + arg <= MaxSt
     /\ IF which = "orig" THEN orig' = [orig EXCEPT !.st = IF Stateful(h.kind) THEN @ + arg ELSE @] /\ UNCHANGED copy
        ELSE copy' = [copy EXCEPT !.st = IF Stateful(h.kind) THEN @ + arg ELSE @] /\ UNCHANGED orig
  /\ last' = <<"call", which, arg>> /\ out' = "ok"
\* x.bump(): method of (non callable) instances
Bump(which) ==
  /\ Tick
  /\ LET h == IF which = "orig" THEN orig ELSE copy IN
     /\ h.kind \in {"inst", "cls_inst", "cinst", "ccls_inst", "icinst", "icls_inst", "sinst", "bufinst"} /\ h.st < MaxSt
     /\ IF which = "orig" THEN orig' = [orig EXCEPT !.st = @ + 1] /\ UNCHANGED copy
        ELSE copy' = [copy EXCEPT !.st = @ + 1] /\ UNCHANGED orig
  /\ last' = <<"bump", which>> /\ out' = "ok"

Next == \/ \E k \in BOOLEAN : Wrap(k)
        \/ \E s \in 0..1 : Instantiate(s)
        \/ \E x \in {"orig", "copy"} : (\E p \in Protos : RoundTrip(x, p)) \/ Bump(x) \/ (\E a \in 0..1 : Call(x, a))
Spec == Init /\ [][Next]_vars

-----------------------------------------------------------------------------
(* what the property promises about every reachable value *)
\* the wrapper is callable iff the object is (class wrappers are constructors)
CallableOf(h) == IF IsClass(h.kind) THEN TRUE ELSE Callable(h.kind)
\* "arrives unwrapped or still wrapped exactly as keep_wrapper says"
ArrivalRule == [][ \A x \in {"orig", "copy"}, p \in Protos : RoundTrip(x, p) =>
                     LET h == IF x = "orig" THEN orig ELSE copy IN
                     /\ copy'.st = h.st /\ copy'.kind = h.kind
                     /\ (copy'.w # <<>>) = (\E i \in 1..Len(h.w) : h.w[i])
                     /\ \A i \in 1..Len(copy'.w) : copy'.w[i] ]_vars
\* a round trip never changes the object the user holds
OrigUntouched == [][ (\E x \in {"orig", "copy"}, p \in Protos : RoundTrip(x, p)) => orig' = orig ]_vars
StBounded == orig.st <= MaxSt /\ copy.st <= MaxSt
=============================================================================
