---------------------------- MODULE MapChunks ----------------------------
(* C03, map clause.  Executor.map(fn, *iterables, chunksize=c) is
        _chain_from_iterable_of_lists( super().map(partial(_process_chunk, fn), _get_chunks(c, *iterables)) )
   Zip(its) truncates to the shortest iterable; Chunks(s, c) cuts the zipped sequence into consecutive pieces of length c
   (the last one shorter); every chunk is mapped in a worker; results are delivered in submission order and flattened.
   TLC evaluates the law  Flatten(MapEach(Chunks(Zip(its), c))) = MapSeq(Zip(its))  for every combination of lengths and
   chunk sizes in the constants and emits each as a test vector for the real helpers and the real executor.map.   *)
EXTENDS Naturals, Sequences, TLC, Json

CONSTANTS MaxLen, MaxIters, MaxChunk

Min(a, b) == IF a <= b THEN a ELSE b
\* iterable number i of length n holds the values i*100 + 1 .. i*100 + n
Iter(i, n) == [k \in 1..n |-> i * 100 + k]
ZipLen(lens) == IF Len(lens) = 0 THEN 0
                ELSE LET F[k \in 1..Len(lens)] == IF k = 1 THEN lens[1] ELSE Min(F[k - 1], lens[k]) IN F[Len(lens)]
Zip(lens) == [k \in 1..ZipLen(lens) |-> [i \in 1..Len(lens) |-> Iter(i, lens[i])[k]]]
Fn(args) == LET F[i \in 0..Len(args)] == IF i = 0 THEN 0 ELSE F[i - 1] * 7 + args[i] IN F[Len(args)]
MapSeq(s) == [k \in 1..Len(s) |-> Fn(s[k])]
NChunks(n, c) == (n + c - 1) \div c
Chunks(s, c) == [j \in 1..NChunks(Len(s), c) |-> SubSeq(s, (j - 1) * c + 1, Min(j * c, Len(s)))]
Flatten(ss) == LET F[j \in 0..Len(ss)] == IF j = 0 THEN <<>> ELSE F[j - 1] \o ss[j] IN F[Len(ss)]

VARIABLES lens, c, result
vars == <<lens, c, result>>
LenSeqs == UNION {[1..n -> 0..MaxLen] : n \in 1..MaxIters}
Init == /\ lens \in LenSeqs /\ c \in 1..MaxChunk
        /\ result = Flatten([j \in 1..NChunks(ZipLen(lens), c) |-> MapSeq(Chunks(Zip(lens), c)[j])])
Next == UNCHANGED vars
Spec == Init /\ [][Next]_vars

MapEqualsBuiltin == result = MapSeq(Zip(lens))
ChunksCoverInOrder == Flatten(Chunks(Zip(lens), c)) = Zip(lens)
            /\ \A j \in 1..NChunks(ZipLen(lens), c) : Len(Chunks(Zip(lens), c)[j]) >= 1 /\ Len(Chunks(Zip(lens), c)[j]) <= c
Emit == PrintT(ToJson(<<"VEC", lens, c, result>>))
=============================================================================
