SPECIFICATION Spec
CONSTANTS
  MaxLen = 2
  CloseReaderOnKill = TRUE
INVARIANT ReleasedMeansNothingOwned
CHECK_DEADLOCK FALSE
