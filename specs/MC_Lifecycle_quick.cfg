SPECIFICATION Spec
CONSTANTS
  Kinds = {"plain_clean", "plain_ctx", "plain_nowait", "plain_kill", "plain_broken", "plain_timeout", "plain_cancel", "reuse_same", "reuse_resize", "reuse_broken", "reuse_kill", "nested"}
  MaxLen = 2
INVARIANT ReleasedMeansNothingOwned
INVARIANT Emit
CHECK_DEADLOCK FALSE
