---------------------------- MODULE Mon_C14E ----------------------------
(* Property monitor for the Event clause of C14: "Event.wait returns True iff the event is set when it returns"
   (and is_set likewise), plus: no call raises, and after a final set() nobody stays blocked.
   Observations: lockacq(t, method) = t acquired the Event's internal lock while executing `method` (logged by the
   modelled lock, not by loky) -- set/clear take effect there, and the value returned by is_set()/wait() is decided
   during the caller's last hold of the lock; ret(t, method, res); exc; end(blocked).                              *)
EXTENDS Naturals, Sequences, FiniteSets, TLC, Json, IOUtils

Traces == JsonDeserialize(IOEnv.TRACE_FILE)
VARIABLES tid, l, ok, why, isSet, snap, asleep, mustWake
vars == <<tid, l, ok, why, isSet, snap, asleep, mustWake>>

Init == /\ tid \in 1..Len(Traces) /\ l = 1 /\ ok = TRUE /\ why = "none" /\ isSet = FALSE /\ snap = <<>> /\ asleep = {} /\ mustWake = {}
Ev == Traces[tid][l]
Fail(msg) == ok' = FALSE /\ why' = msg
Fine == UNCHANGED <<ok, why>>
Snap(t) == IF t \in DOMAIN snap THEN snap[t] ELSE FALSE
SetSnap(t, v) == [x \in DOMAIN snap \cup {t} |-> IF x = t THEN v ELSE snap[x]]

Step ==
  /\ ok /\ l <= Len(Traces[tid]) /\ l' = l + 1 /\ tid' = tid
  /\ LET e == Ev IN
     CASE e.ev = "asleep" -> asleep' = asleep \cup {e.t} /\ UNCHANGED <<isSet, snap, mustWake>> /\ Fine
       [] e.ev \in {"granted", "timedout"} -> asleep' = asleep \ {e.t} /\ UNCHANGED <<isSet, snap, mustWake>> /\ Fine
       [] e.ev = "ret" /\ e.kind = "set" ->
            /\ UNCHANGED <<isSet, snap, asleep>> /\ mustWake' = {}
            /\ IF mustWake \cap asleep # {} THEN Fail("Event.set returned while a thread that was waiting is still asleep") ELSE Fine
       [] e.ev = "lockacq" /\ e.kind = "set"   -> isSet' = TRUE  /\ mustWake' = asleep /\ UNCHANGED <<snap, asleep>> /\ Fine
       [] e.ev = "lockacq" /\ e.kind = "clear" -> isSet' = FALSE /\ UNCHANGED <<snap, asleep, mustWake>> /\ Fine
       [] e.ev = "lockacq"                     -> snap' = SetSnap(e.t, isSet) /\ UNCHANGED <<isSet, asleep, mustWake>> /\ Fine
       [] e.ev = "ret" /\ e.kind \in {"wait", "is_set"} ->
            /\ UNCHANGED <<isSet, snap, asleep, mustWake>>
            /\ IF e.res # Snap(e.t)
               THEN Fail(IF e.kind = "wait" THEN "Event.wait returned a value different from the event's state when it returned"
                                            ELSE "Event.is_set returned a value different from the event's state")
               ELSE Fine
       [] e.ev = "exc" -> UNCHANGED <<isSet, snap, asleep, mustWake>> /\ Fail("an Event method raised")
       [] e.ev = "end" -> /\ UNCHANGED <<isSet, snap, asleep, mustWake>>
                          /\ IF e.blocked # <<>> THEN Fail("a thread is still blocked in Event.wait after set()") ELSE Fine
       [] OTHER -> UNCHANGED <<isSet, snap, asleep, mustWake>> /\ Fine
Spec == Init /\ [][Step]_vars
Ok == ok
=============================================================================
