#!/bin/bash
# dev helper: sweep.sh <first seed> <last seed> <Cnn...>  - run quick checks with many seeds in the background-friendly way:
# evidence goes to .work/ev_sweep, pauses while tools/trymut.sh has a changed /repo (MUT_LOCK), output lines are prefixed.
A=$1; B=$2; shift 2
cd /verif
export VERIF_DEV_EVIDENCE_DIR=/verif/.work/ev_sweep
for s in $(seq $A $B); do for c in "$@"; do
  while [ -e .work/MUT_LOCK ]; do sleep 3; done
  touch .work/SWEEP_BUSY
  if [ -e .work/MUT_LOCK ]; then rm -f .work/SWEEP_BUSY; sleep 5; continue; fi
  VERIF_SEED=$s ./vcheck run $c 2>&1 | grep -E "^C[0-9]+ quick|VIOLATION|MACHINERY|^  " | cut -c1-420 | sed "s/^/seed$s /"
  rm -f .work/SWEEP_BUSY
done; done
echo SWEEP-DONE
