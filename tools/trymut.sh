#!/bin/bash
# usage: trymut.sh <patch.diff> <Cnn> [<Cnn> ...]   - apply a seeded change to /repo, run the quick checks, always undo.
# env TIER=thorough for the thorough tier.
P=$(readlink -f "$1"); shift
cd /repo || exit 2
if ! git diff --quiet; then echo "/repo has uncommitted changes; refusing"; exit 2; fi
trap 'git -C /repo checkout -- . ; echo "[reverted /repo]"' EXIT
git apply "$P" || { echo "patch does not apply"; exit 2; }
cd /verif
for id in "$@"; do
  echo "=== $id (${TIER:-quick}) on $(basename $(dirname $P))"
  ./vcheck run $id --tier ${TIER:-quick} 2>&1 | grep -E "VIOLATION|KNOWN-FINDING|MACHINERY|^C[0-9]+ |^  " | head -${LINES_MAX:-12}
  echo "rc=${PIPESTATUS[0]}"
done
