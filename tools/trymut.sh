#!/bin/bash
# usage: trymut.sh <patch.diff> <Cnn> [<Cnn> ...]   - apply a seeded change to /repo, run the quick checks, always undo.
# env TIER=thorough for the thorough tier.
P=$(readlink -f "$1"); shift
cd /repo || exit 2
# background seed sweeps (tools/sweep.sh) must not see the changed tree
touch /verif/.work/MUT_LOCK
while [ -e /verif/.work/SWEEP_BUSY ]; do sleep 2; done
if ! git diff --quiet; then echo "/repo has uncommitted changes; refusing"; rm -f /verif/.work/MUT_LOCK; exit 2; fi
trap 'git -C /repo checkout -- . ; rm -f /verif/.work/MUT_LOCK; echo "[reverted /repo]"' EXIT
git apply "$P" || { echo "patch does not apply"; exit 2; }
cd /verif
for id in "$@"; do
  echo "=== $id (${TIER:-quick}) on $(basename $(dirname $P))"
  VERIF_DEV_EVIDENCE_DIR=/verif/.work/ev_mut ./vcheck run $id --tier ${TIER:-quick} 2>&1 | grep -E "VIOLATION|KNOWN-FINDING|MACHINERY|^C[0-9]+ |^  " | head -${LINES_MAX:-12}
  echo "rc=${PIPESTATUS[0]}"
done
