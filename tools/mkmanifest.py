#!/venv/bin/python
"""Regenerates /verif/MANIFEST.json from the table below and validates it against the schema."""
import json, os, sys, subprocess
ROOT = os.path.dirname(os.path.dirname(os.path.abspath(__file__)))

CHECKS = json.load(open(os.path.join(ROOT, "tools", "checks_meta.json")))

NOT_YET = "check not built yet in this round (work in progress; see DESIGN.md section 10)"
ALL = ["C%02d" % i for i in range(1, 21)]


def main():
    checks = []
    for pid in ALL:
        if pid not in CHECKS:
            continue
        c = CHECKS[pid]
        checks.append(dict(
            property_id=pid,
            quick_cmd="./vcheck run %s --tier quick" % pid,
            thorough_cmd="./vcheck run %s --tier thorough" % pid,
            evidence_file="/verif/evidence/%s.json" % pid,
            replay_cmd_template="./vcheck replay {path}",
            engine=c["engine"],
            level_claimed=dict(category=c.get("category", "model_checking"), text=c["text"], design_ref=c["design_ref"]),
            level_note=c["note"],
            technique=c["technique"]))
    na = [dict(property_id=p, reason=NA.get(p, NOT_YET)) for p in ALL if p not in CHECKS]
    hooks = json.load(open(os.path.join(ROOT, "tools", "hooks.json")))
    man = dict(
        version=1,
        setup_cmd="./vcheck setup",
        hooks=hooks,
        engines=[
            dict(name="E-PURE", path="engine/pure", serves_properties=[p for p in CHECKS if CHECKS[p]["engine"] == "E-PURE"],
                 kind_free_text="direct calls of the real functions with substituted module globals; one spec action = one call"),
            dict(name="E-SIM", path="engine/sim", serves_properties=[p for p in CHECKS if CHECKS[p]["engine"] == "E-SIM"],
                 kind_free_text="the real loky code on modelled primitives under a deterministic baton scheduler driven by TLC behaviours / seeded PCT schedules"),
            dict(name="E-REAL", path="engine/real", serves_properties=[p for p in CHECKS if CHECKS[p]["engine"] == "E-REAL"],
                 kind_free_text="real processes with env-guarded fault points, plans generated from TLC behaviours"),
        ],
        checks=checks,
        not_applicable=na,
        notes="Technique family: explicit TLA+ specifications (specs/*.tla) checked by TLC and bound to the code by replay of TLC behaviours and by trace validation. See DESIGN.md.")
    with open(os.path.join(ROOT, "MANIFEST.json"), "w") as fh:
        json.dump(man, fh, indent=1)
    # validate
    code = ("import json,jsonschema;jsonschema.validate(json.load(open('%s/MANIFEST.json')),json.load(open('/root/.vp/MANIFEST.schema.json')));print('MANIFEST valid: %d checks, %d not_applicable')"
            % (ROOT, len(checks), len(na)))
    subprocess.check_call(["python3-vt", "-c", code])


NA = {}

if __name__ == "__main__":
    main()
