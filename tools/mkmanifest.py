#!/venv/bin/python
"""Regenerates /verif/MANIFEST.json from the table below and validates it against the schema."""
import json, os, sys, subprocess
ROOT = os.path.dirname(os.path.dirname(os.path.abspath(__file__)))

CHECKS = {
 "C17": dict(
    engine="E-PURE", technique="TLA+ spec (code transcription = property formula, TLC exhaustive) + every TLC state replayed into the real function",
    text=("CpuCount.tla holds a step-by-step transcription of cpu_count and, independently, the property's formula; TLC "
          "proves them equal on every state of the enumerated configuration x call-history space and emits every complete "
          "history as a test vector; each vector is replayed into the real cpu_count with all inputs substituted and the "
          "return value, the warning and the probe count compared. Exhaustive for the enumerated space, which is the "
          "right level for a pure case analysis."),
    design_ref="6/C17",
    note=("Configuration space = constants of MC_CpuCount_{quick,thorough}.cfg; Linux branch only; inputs substituted at "
          "module level (os facade, open, psutil, probe); trusted: TLC, the substitution harness engine/pure/cpu_child.py.")),
 "C11": dict(
    engine="E-PURE", technique="TLA+ spec of the tracker's line protocol + registry; every transition of TLC's state graph replayed into the real main(fd); recorded runs validated by TLC against the trace spec",
    text=("ResourceTracker.tla models the request line protocol (field-level parsing rule included) and the refcount registry "
          "as in the code, with ghost variables in the property's own words; TLC checks the property as invariants/action "
          "properties exhaustively for the quick alphabet. Binding, both directions: every transition of the state graph (and "
          "long simulated behaviours over a larger alphabet) is replayed into the real resource_tracker.main(fd), valid requests "
          "being written by the real client API; random byte streams fed to the real main(fd) are validated by TLC against "
          "Trace_ResourceTracker.tla. Right level: the tracker is a sequential state machine over an unbounded input language; "
          "exhaustive small-scope model checking plus trace validation covers histories tests cannot enumerate."),
    design_ref="6/C11",
    note=("In-process run of main(fd) with _CLEANUP_FUNCS replaced by recorders (no real unlink), signal/stdio neutralised; "
          "POSIX cleanup table; counts <= 2 exhaustively, larger only sampled; trusted: TLC, engine/pure/tracker_child.py.")),
 "C14": dict(
    engine="E-SIM", technique="TLA+ spec with one action per semaphore operation, TLC exhaustive; behaviours replayed step-by-step into the real Condition code on instrumented semaphores; TLA+ monitors over observation traces; SemLock.tla replayed on real primitives across processes",
    text=("Condition.tla has one action per semaphore operation of wait/notify/notify_all, timeouts firing at any moment; TLC "
          "checks the clauses of the property exhaustively for 2-3 waiters, 1-2 notifiers, bursts of 2. Every transition of the "
          "smallest graph and simulated behaviours of the larger ones are replayed operation by operation into the real "
          "methods running on instrumented semaphores installed through Condition.__setstate__, the projected state compared "
          "after each step; seeded random/priority schedules explore the real code as well; each execution ends with an epilogue "
          "re-using the object; verdicts come from the TLA+ monitors Mon_C14 / Mon_C14E evaluated by TLC on the observation "
          "traces. SemLock.tla behaviours are replayed on the real Lock/RLock/Semaphore/BoundedSemaphore from two threads of the "
          "parent and of a loky child holding pickled copies. Known finding D5 (lost notify) is reproduced from TLC's "
          "counterexample on the real code."),
    design_ref="6/C14",
    note=("Condition/Event interleavings are explored on modelled counting semaphores (trusted base, bound to the real ones by "
          "part b); real primitives are exercised with non-blocking operations only; Event is covered by seeded schedules and a "
          "monitor, not by an exhaustive spec of its own.")),
 "C01": dict(
    engine="E-SIM", technique="TLA+ property monitor (Mon_Exec.tla, TLC-evaluated) over API-level traces of the real loky code run on modelled primitives under seeded/priority schedules with crashes and timeouts at chosen program points; protocol spec LokyExecutor.tla model-checked by TLC",
    text=('Every execution of the real submit/manager/feeder/worker/shutdown code on modelled primitives is run to quiescence under a controlled schedule (uniform and priority schedules with change points, idle timeouts firing at any blocked moment, worker crashes at every worker program point incl. while holding each lock and between the two halves of a result message); Mon_Exec[C01] (TLA+, evaluated by TLC on the observation trace) requires every future terminal, every blocking API call returned and no livelock. Known genuine defects are matched by signature (known_findings.json).'),
    design_ref="6/C01",
    note=('E-SIM trusted base: modelled pipes (message framing, EOF/EPIPE, half-written messages), counting semaphores that stay held when their holder dies, process sentinels, virtual time; idle timeouts adversarial, the 30 s exit handshake and 5 s cool-down fire only at quiescence; hangs are judged at quiescence of the deterministic simulation (fair continuation before declaring divergence); the Windows branches and real OS signal delivery are outside E-SIM (see E-REAL checks).')),
 "C02": dict(
    engine="E-SIM", technique="TLA+ property monitor (Mon_Exec.tla, TLC-evaluated) over API-level traces of the real loky code run on modelled primitives under seeded/priority schedules with crashes and timeouts at chosen program points; protocol spec LokyExecutor.tla model-checked by TLC",
    text=('Crash-point enumeration on the real code in E-SIM: a worker is killed at a chosen label of its loop (every lock/pipe operation, inside the initializer, in the task), by the task itself, or at random; after the pool settles a probing submit is issued. Mon_Exec[C02] requires: no future left pending, no fabricated value, later submits rejected with BrokenProcessPool, all workers killed and reaped. Real signals/exit codes are covered by E-REAL (C02 real part).'),
    design_ref="6/C02",
    note=('E-SIM trusted base: modelled pipes (message framing, EOF/EPIPE, half-written messages), counting semaphores that stay held when their holder dies, process sentinels, virtual time; idle timeouts adversarial, the 30 s exit handshake and 5 s cool-down fire only at quiescence; hangs are judged at quiescence of the deterministic simulation (fair continuation before declaring divergence); the Windows branches and real OS signal delivery are outside E-SIM (see E-REAL checks).')),
 "C03": dict(
    engine="E-SIM", technique="TLA+ property monitor (Mon_Exec.tla, TLC-evaluated) over API-level traces of the real loky code run on modelled primitives under seeded/priority schedules with crashes and timeouts at chosen program points; protocol spec LokyExecutor.tla model-checked by TLC",
    text=("Task bodies log start/finish with their own id and return a value that encodes their submission; Mon_Exec[C03] requires at most one start per task, none after cancel() returned True, results only from the task's own completed execution, one resolution per future - under respawns, idle timeouts, crashes and two submitting threads. The map()/chunking clause is decided by MapChunks.tla (exhaustive) replayed into the real helpers."),
    design_ref="6/C03",
    note=('E-SIM trusted base: modelled pipes (message framing, EOF/EPIPE, half-written messages), counting semaphores that stay held when their holder dies, process sentinels, virtual time; idle timeouts adversarial, the 30 s exit handshake and 5 s cool-down fire only at quiescence; hangs are judged at quiescence of the deterministic simulation (fair continuation before declaring divergence); the Windows branches and real OS signal delivery are outside E-SIM (see E-REAL checks).')),
 "C04": dict(
    engine="E-SIM", technique="TLA+ property monitor (Mon_Exec.tla, TLC-evaluated) over API-level traces of the real loky code run on modelled primitives under seeded/priority schedules with crashes and timeouts at chosen program points; protocol spec LokyExecutor.tla model-checked by TLC",
    text=("Scenarios mix task-level failures (raise, SystemExit, KeyboardInterrupt, unpicklable argument, too-large argument, unpicklable result, unpicklable exception) at every position with full call queues and the feeder error path interleaved at container-operation grain; Mon_Exec[C04] requires the failing future to carry the task's own error (type, remote traceback as __cause__), siblings their own outcome, and the pool never broken."),
    design_ref="6/C04",
    note=('E-SIM trusted base: modelled pipes (message framing, EOF/EPIPE, half-written messages), counting semaphores that stay held when their holder dies, process sentinels, virtual time; idle timeouts adversarial, the 30 s exit handshake and 5 s cool-down fire only at quiescence; hangs are judged at quiescence of the deterministic simulation (fair continuation before declaring divergence); the Windows branches and real OS signal delivery are outside E-SIM (see E-REAL checks).')),
 "C05": dict(
    engine="E-SIM", technique="TLA+ property monitor (Mon_Exec.tla, TLC-evaluated) over API-level traces of the real loky code run on modelled primitives under seeded/priority schedules with crashes and timeouts at chosen program points; protocol spec LokyExecutor.tla model-checked by TLC",
    text=('Graceful shutdown (wait or not, del of the executor, interpreter exit) issued at scheduler-chosen points relative to submission, dispatch, completion, idle timeouts and respawn; Mon_Exec[C05] requires every submitted task to deliver its own outcome, workers to leave with status 0 through the handshake (never killed, pool never broken), management threads ended, later submit rejected with ShutdownExecutorError.'),
    design_ref="6/C05",
    note=('E-SIM trusted base: modelled pipes (message framing, EOF/EPIPE, half-written messages), counting semaphores that stay held when their holder dies, process sentinels, virtual time; idle timeouts adversarial, the 30 s exit handshake and 5 s cool-down fire only at quiescence; hangs are judged at quiescence of the deterministic simulation (fair continuation before declaring divergence); the Windows branches and real OS signal delivery are outside E-SIM (see E-REAL checks).')),
 "C06": dict(
    engine="E-SIM", technique="TLA+ property monitor (Mon_Exec.tla, TLC-evaluated) over API-level traces of the real loky code run on modelled primitives under seeded/priority schedules with crashes and timeouts at chosen program points; protocol spec LokyExecutor.tla model-checked by TLC",
    text=('Tasks that never finish (blocked until released, never released) with shutdown(kill_workers=True) issued in every pool state; Mon_Exec[C06] requires the call to return (logical promptness: it cannot have waited for a task), every unfinished future to fail with ShutdownExecutorError, all workers dead and reaped. Descendant process trees are covered by the E-REAL part.'),
    design_ref="6/C06",
    note=('E-SIM trusted base: modelled pipes (message framing, EOF/EPIPE, half-written messages), counting semaphores that stay held when their holder dies, process sentinels, virtual time; idle timeouts adversarial, the 30 s exit handshake and 5 s cool-down fire only at quiescence; hangs are judged at quiescence of the deterministic simulation (fair continuation before declaring divergence); the Windows branches and real OS signal delivery are outside E-SIM (see E-REAL checks).')),
 "C07": dict(
    engine="E-SIM", technique="TLA+ property monitor (Mon_Exec.tla, TLC-evaluated) over API-level traces of the real loky code run on modelled primitives under seeded/priority schedules with crashes and timeouts at chosen program points; protocol spec LokyExecutor.tla model-checked by TLC",
    text=('Idle timeouts are scheduler decisions that may fire whenever a worker is blocked waiting (timeout down to 0), racing with submit, dispatch, respawn and shutdown; Mon_Exec[C07] requires: never BrokenProcessPool, no lost or duplicated task, no worker leaving while holding a task, no kill.'),
    design_ref="6/C07",
    note=('E-SIM trusted base: modelled pipes (message framing, EOF/EPIPE, half-written messages), counting semaphores that stay held when their holder dies, process sentinels, virtual time; idle timeouts adversarial, the 30 s exit handshake and 5 s cool-down fire only at quiescence; hangs are judged at quiescence of the deterministic simulation (fair continuation before declaring divergence); the Windows branches and real OS signal delivery are outside E-SIM (see E-REAL checks).')),
 "C08": dict(
    engine="E-SIM", technique="TLA+ property monitor (Mon_Exec.tla, TLC-evaluated) over API-level traces of the real loky code run on modelled primitives under seeded/priority schedules with crashes and timeouts at chosen program points; protocol spec LokyExecutor.tla model-checked by TLC",
    text=('Mon_Exec[C08] computes concurrency from the start/finish log and samples len(executor._processes) after every scheduling step: never above max_workers; saturation scenarios submit >= max_workers blocking tasks and probe at quiescence that max_workers of them run (also after idle timeouts emptied the pool).'),
    design_ref="6/C08",
    note=('E-SIM trusted base: modelled pipes (message framing, EOF/EPIPE, half-written messages), counting semaphores that stay held when their holder dies, process sentinels, virtual time; idle timeouts adversarial, the 30 s exit handshake and 5 s cool-down fire only at quiescence; hangs are judged at quiescence of the deterministic simulation (fair continuation before declaring divergence); the Windows branches and real OS signal delivery are outside E-SIM (see E-REAL checks).')),
}

NOT_YET = "check not built yet in this round (work in progress; see DESIGN.md section 10)"
ALL = ["C%02d" % i for i in range(1, 21)]


def main():
    checks = []
    for pid in ALL:
        if pid not in CHECKS:
            continue
        c = CHECKS[pid]
        checks.append(dict(
            property_id=pid,
            quick_cmd="./vcheck run %s --tier quick" % pid,
            thorough_cmd="./vcheck run %s --tier thorough" % pid,
            evidence_file="/verif/evidence/%s.json" % pid,
            replay_cmd_template="./vcheck replay {path}",
            engine=c["engine"],
            level_claimed=dict(category=c.get("category", "model_checking"), text=c["text"], design_ref=c["design_ref"]),
            level_note=c["note"],
            technique=c["technique"]))
    na = [dict(property_id=p, reason=NA.get(p, NOT_YET)) for p in ALL if p not in CHECKS]
    hooks = json.load(open(os.path.join(ROOT, "tools", "hooks.json")))
    man = dict(
        version=1,
        setup_cmd="./vcheck setup",
        hooks=hooks,
        engines=[
            dict(name="E-PURE", path="engine/pure", serves_properties=[p for p in CHECKS if CHECKS[p]["engine"] == "E-PURE"],
                 kind_free_text="direct calls of the real functions with substituted module globals; one spec action = one call"),
            dict(name="E-SIM", path="engine/sim", serves_properties=[p for p in CHECKS if CHECKS[p]["engine"] == "E-SIM"],
                 kind_free_text="the real loky code on modelled primitives under a deterministic baton scheduler driven by TLC behaviours / seeded PCT schedules"),
            dict(name="E-REAL", path="engine/real", serves_properties=[p for p in CHECKS if CHECKS[p]["engine"] == "E-REAL"],
                 kind_free_text="real processes with env-guarded fault points, plans generated from TLC behaviours"),
        ],
        checks=checks,
        not_applicable=na,
        notes="Technique family: explicit TLA+ specifications (specs/*.tla) checked by TLC and bound to the code by replay of TLC behaviours and by trace validation. See DESIGN.md.")
    with open(os.path.join(ROOT, "MANIFEST.json"), "w") as fh:
        json.dump(man, fh, indent=1)
    # validate
    code = ("import json,jsonschema;jsonschema.validate(json.load(open('%s/MANIFEST.json')),json.load(open('/root/.vp/MANIFEST.schema.json')));print('MANIFEST valid: %d checks, %d not_applicable')"
            % (ROOT, len(checks), len(na)))
    subprocess.check_call(["python3-vt", "-c", code])


NA = {}

if __name__ == "__main__":
    main()
