#!/bin/bash
# dev helper: tl.sh <Module> <cfg> [extra tlc args]  -> runs TLC in a scratch dir under /verif/.work, prints the output file path
set -u
M=$1; C=$2; shift 2
W=/verif/.work/dev_$M
rm -rf $W; mkdir -p $W
cp /verif/specs/*.tla /verif/specs/*.cfg $W/ 2>/dev/null
cd $W
/usr/bin/time -f "wall=%es" java -XX:+UseParallelGC -Xmx12g -cp /opt/veriftools/tla/tla2tools.jar:/opt/veriftools/tla/CommunityModules-deps.jar tlc2.TLC -workers ${WORKERS:-16} -metadir $W/m -noGenerateSpecTE -config $C -coverage 1 "$@" $M.tla > $W/out.txt 2>&1
echo "rc=$? out=$W/out.txt"
