#!/bin/bash
# usage: confirm_mut.sh <worktree> <seed-id> <property> <demo.py> -- <pytest args...>
# Confirms, in the scratch worktree: demo fails with the change, passes without it, selected existing tests pass with it.
# On success stores /verif/seeded/<seed-id>/{patch.diff,<demo>,meta.json(partial)}.
W=$1; ID=$2; PROP=$3; DEMO=$4; shift 4; [ "$1" = "--" ] && shift
cd "$W" || exit 2
git diff -- loky > /tmp/mut/$ID.patch
[ -s /tmp/mut/$ID.patch ] || { echo "no change in worktree"; exit 2; }
run_demo() { setsid -w timeout -k 5 150 /venv/bin/python $DEMO > /tmp/mut/$ID.demo.$1.out 2>&1 < /dev/null; echo $?; }
with=$(run_demo with); /tmp/mut/killmine.sh "$W"
git checkout -- loky
without=$(run_demo without); /tmp/mut/killmine.sh "$W"
git apply /tmp/mut/$ID.patch
echo "demo with change: rc=$with ; without: rc=$without"
setsid -w timeout -k 5 2400 /venv/bin/python -m pytest -q -p no:cacheprovider --timeout=300 "$@" > /tmp/mut/$ID.tests.out 2>&1 < /dev/null
trc=$?; /tmp/mut/killmine.sh "$W"
tail -3 /tmp/mut/$ID.tests.out
echo "tests rc=$trc"
if [ "$with" = 1 ] && [ "$without" = 0 ] && [ "$trc" = 0 ]; then
  D=/verif/seeded/$ID; mkdir -p $D
  cp /tmp/mut/$ID.patch $D/patch.diff; cp $DEMO $D/; [ -f MUTANT.md ] && cp MUTANT.md $D/MUTANT.md
  cat > $D/confirm.json <<E
{"property": "$PROP", "demo": "$(basename $DEMO)", "demo_rc_with_change": $with, "demo_rc_without_change": $without,
 "existing_tests_cmd": "/venv/bin/python -m pytest -q -p no:cacheprovider --timeout=300 $*", "existing_tests_rc": $trc,
 "existing_tests_tail": "$(grep -E "passed|failed" /tmp/mut/$ID.tests.out | tail -n 1 | tr -d '"')"}
E
  echo "CONFIRMED -> $D"
else
  echo "NOT CONFIRMED"
fi
