"""E-PURE child for C17: replay TLC-emitted configuration/history vectors into the real
loky.backend.context.cpu_count with every input substituted.  Usage: cpu_child.py <vectors.jsonl> <out.json>

A vector is ["VEC", os, affk, affn, cg, quota, period, env_set, env_val, probe, [[phys, ret, warn], ...]].
"""
import sys, os, io, json, types, warnings, builtins

import loky.backend.context as C

CPU_MAX = "/sys/fs/cgroup/cpu.max"
CFS_Q = "/sys/fs/cgroup/cpu/cpu.cfs_quota_us"
CFS_P = "/sys/fs/cgroup/cpu/cpu.cfs_period_us"
real_os = os


class FakePath:
    def __init__(self, files):
        self.files = files

    def exists(self, p):
        if p in (CPU_MAX, CFS_Q, CFS_P):
            return p in self.files
        return real_os.path.exists(p)

    def __getattr__(self, n):
        return getattr(real_os.path, n)


def make_os(vec_os, affk, affn, files, environ):
    ns = types.SimpleNamespace()
    # everything the real os offers except the members we control
    for n in dir(real_os):
        if n in ("cpu_count", "sched_getaffinity", "path", "environ", "process_cpu_count"):
            continue
        try:
            setattr(ns, n, getattr(real_os, n))
        except Exception:
            pass
    ns.cpu_count = lambda: (None if vec_os == 0 else vec_os)
    if hasattr(real_os, "process_cpu_count"):
        ns.process_cpu_count = lambda: (None if vec_os == 0 else vec_os)
    if affk == "sched":
        ns.sched_getaffinity = lambda pid: set(range(affn))
    elif affk in ("psutil_notimpl",):
        def sga(pid):
            raise NotImplementedError("sched_getaffinity")
        ns.sched_getaffinity = sga
    elif affk == "none":
        # alternate between the two ways of "nobody answers"
        def sga(pid):
            raise NotImplementedError("sched_getaffinity")
        ns.sched_getaffinity = sga
    # psutil_absent: attribute missing altogether
    ns.path = FakePath(files)
    ns.environ = environ
    return ns


def make_psutil(affk, affn):
    m = types.ModuleType("psutil")

    class Process:
        def __init__(self, pid=None):
            pass
    if affk in ("psutil_absent", "psutil_notimpl"):
        Process.cpu_affinity = lambda self: list(range(affn))
    m.Process = Process
    return m


def run_vector(v):
    _, vos, affk, affn, cg, q, p, env_set, env_val, probe, calls = v
    files = {}
    if cg == "v2max":
        files[CPU_MAX] = "max 100000\n"
    elif cg == "v2quota":
        files[CPU_MAX] = "%d %d\n" % (q, p)
    elif cg == "v1":
        files[CFS_Q], files[CFS_P] = "%d\n" % q, "%d\n" % p
    elif cg == "v1neg":
        files[CFS_Q], files[CFS_P] = "-1\n", "100000\n"
    elif cg == "v1zero":
        files[CFS_Q], files[CFS_P] = "0\n", "100000\n"
    environ = {"PATH": "/usr/bin"}
    if env_set:
        environ["LOKY_MAX_CPU_COUNT"] = str(env_val)
    nprobe = [0]

    def probe_fn():
        nprobe[0] += 1
        if probe == -1:
            raise OSError("probe failed (substituted)")
        return probe

    def fake_open(path, *a, **k):
        if path in (CPU_MAX, CFS_Q, CFS_P):
            if path not in files:
                raise FileNotFoundError(path)
            return io.StringIO(files[path])
        return builtins.open(path, *a, **k)

    saved = dict(os=C.os, lin=C._count_physical_cores_linux, cache=C.physical_cores_cache,
                 psutil=sys.modules.get("psutil", None))
    C.os = make_os(vos, affk, affn, files, environ)
    C.open = fake_open
    C._count_physical_cores_linux = probe_fn
    C.physical_cores_cache = None
    sys.modules["psutil"] = make_psutil(affk, affn)
    got = []
    try:
        for phys, _, _ in calls:
            with warnings.catch_warnings(record=True) as ws:
                warnings.simplefilter("always")
                try:
                    r = C.cpu_count(only_physical_cores=phys)
                except BaseException as ex:  # an exception is an observable (wrong) outcome
                    r = "EXC:%s" % type(ex).__name__
            w = any("physical cores" in str(x.message) for x in ws)
            other = [str(x.message)[:80] for x in ws if "physical cores" not in str(x.message)]
            got.append([bool(phys), r, w, len(ws)])
    finally:
        C.os = saved["os"]
        del C.open
        C._count_physical_cores_linux = saved["lin"]
        C.physical_cores_cache = saved["cache"]
        if saved["psutil"] is None:
            sys.modules.pop("psutil", None)
        else:
            sys.modules["psutil"] = saved["psutil"]
    return got, nprobe[0]


def main():
    vecs, outp = sys.argv[1], sys.argv[2]
    sys.stderr = open(os.devnull, "w")
    n = 0
    mism = []
    kinds = set()
    with open(vecs) as fh:
        for line in fh:
            v = json.loads(line)
            n += 1
            got, nprobe = run_vector(v)
            exp = v[10]
            bad = None
            for k, (g, e) in enumerate(zip(got, exp)):
                if g[1] != e[1]:
                    bad = "call %d (only_physical_cores=%s) returned %r, the property requires %r" % (k + 1, e[0], g[1], e[1])
                    break
                if g[2] != e[2]:
                    bad = "call %d (only_physical_cores=%s) %s the fallback warning, the property requires %s" % (
                        k + 1, e[0], "emitted" if g[2] else "did not emit", "one" if e[2] else "none")
                    break
            if bad is None and nprobe > 1:
                bad = "physical-core detection ran %d times in one process (must be cached)" % nprobe
            if bad:
                if len(mism) < 50:
                    mism.append(dict(vector=v, got=got, why=bad))
                else:
                    mism.append(None)
            kinds.add((v[2], v[4], v[7], tuple(c[0] for c in exp)))
    json.dump(dict(n=n, mismatches=[m for m in mism if m], n_mismatch=len(mism), kinds=len(kinds)), open(outp, "w"))


if __name__ == "__main__":
    main()
