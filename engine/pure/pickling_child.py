"""E-PURE child for C15: replay TLC histories of Pickling.tla on the real loky.backend.reduction.
usage: pickling_child.py <cases.jsonl> <out.json>; case = {"i", "steps":[[op,...]], "exp":[{"out":{T:tag}, "copyreg":{T:tag}, "loky":{T:tag}, "pickler": name}]}"""
import sys, os, json, copyreg, pickle, copy
import loky.backend.reduction as R
from cloudpickle import CloudPickler


class T1:
    def __init__(self, v=1):
        self.v = v


class T2:
    def __init__(self, v=2):
        self.v = v


TYPES = {"T1": T1, "T2": T2}


class Arrived:
    def __init__(self, tag):
        self.tag = tag


def mk_reducer(tag):
    def red(obj):
        return Arrived, (tag,)
    red.tag = tag
    return red


REDS = {g: mk_reducer(g) for g in ("a", "b", "c")}


def cls_table():
    """the class-level table of the cloudpickle pickler; it is a ChainMap whose last map is copyreg's table: only its own
    maps are the class-level registry"""
    dt = CloudPickler.dispatch_table
    maps = getattr(dt, "maps", None)
    if maps is None:
        return dt
    own = {}
    for m in reversed([m for m in maps if m is not copyreg.dispatch_table]):
        own.update(m)
    return own


def snapshot():
    return dict(copyreg=dict(copyreg.dispatch_table), cls=dict(cls_table()), loky=dict(R._dispatch_table))


def restore(snap):
    copyreg.dispatch_table.clear()
    copyreg.dispatch_table.update(snap["copyreg"])
    R._dispatch_table.clear()
    R._dispatch_table.update(snap["loky"])
    dt = CloudPickler.dispatch_table
    for m in getattr(dt, "maps", [dt]):
        if m is copyreg.dispatch_table:
            continue
        for k in list(m):
            if k not in snap["cls"]:
                del m[k]
    R.set_loky_pickler("cloudpickle")


def table_view(tbl, base):
    """entries of our two types, plus any other difference with the pristine table"""
    v = {}
    for name, t in TYPES.items():
        f = tbl.get(t)
        v[name] = getattr(f, "tag", "other") if f is not None else "default"
    extra = sorted(str(k) for k in tbl if k not in base and k not in TYPES.values())
    missing = sorted(str(k) for k in base if k not in tbl)
    return v, extra + ["-" + m for m in missing]


def replay(case, pristine):
    for k, (op, exp) in enumerate(zip(case["steps"], case["exp"])):
        got_out = None
        try:
            if op[0] == "set_pickler":
                R.set_loky_pickler(op[1])
            elif op[0] == "copyreg":
                copyreg.pickle(TYPES[op[1]], REDS[op[2]])
            elif op[0] == "loky_register":
                R.register(TYPES[op[1]], REDS[op[2]])
            elif op[0] == "dumps":
                reducers = {TYPES[t]: REDS[g] for t, g in op[1].items() if g != "default"}
                got_out = {}
                for name, t in TYPES.items():
                    back = pickle.loads(bytes(R.dumps([t(5)], reducers=reducers)))[0]
                    got_out[name] = back.tag if isinstance(back, Arrived) else ("default" if type(back).__name__ == name and back.v == 5 else "garbled")
        except BaseException as ex:
            return "step %d %s raised %s: %s" % (k + 1, op, type(ex).__name__, str(ex)[:120])
        if got_out is not None and got_out != exp["out"]:
            return "step %d dumps with reducers %s under the %s back-end reduced the types with %s, the property requires %s" % (
                k + 1, op[1], exp["pickler"], got_out, exp["out"])
        if R.get_loky_pickler_name() != exp["pickler"]:
            return "step %d %s: the selected pickler is %r, expected %r" % (k + 1, op, R.get_loky_pickler_name(), exp["pickler"])
        for reg, tbl, key in (("copyreg.dispatch_table", copyreg.dispatch_table, "copyreg"), ("loky's _dispatch_table", R._dispatch_table, "loky"),
                              ("the pickler class's dispatch_table", cls_table(), "cls")):
            v, extra = table_view(tbl, pristine[key])
            want = exp.get(key, {"T1": "default", "T2": "default"})
            if v != want or extra:
                return "step %d %s: process-wide registry %s now holds %s%s, it must hold %s" % (
                    k + 1, op, reg, v, (" and was altered for " + ", ".join(extra[:4])) if extra else "", want)
    return None


def main():
    pristine = snapshot()
    out = []
    n = 0
    for line in open(sys.argv[1]):
        c = json.loads(line)
        n += 1
        why = replay(c, pristine)
        restore(pristine)
        if why:
            out.append(dict(i=c["i"], why=why, steps=c["steps"]))
    json.dump(dict(n=n, out=out), open(sys.argv[2], "w"))


if __name__ == "__main__":
    main()
