"""E-PURE child for C19: replay TLC behaviours of Nesting.tla on the real depth-limiting code:
  * _check_max_depth(context) with the module's MAX_DEPTH / _CURRENT_DEPTH as seen at that place,
  * ProcessPoolExecutor._adjust_process_count (the single place where workers are spawned for submit, re-spawn and
    resize) with a recording context: the depth shipped to the child,
  * the prologue of _process_worker run on fake queues: the depth seen by the initializer and by a task.
usage: nesting_child.py <cases.jsonl> <out.json>; case = {"i", "max", "steps": [[op...]], "exp": [{"out":..,"depths":[..]}]}"""
import sys, os, json
os.environ["PYTHONFAULTHANDLER"] = "0"
import loky.process_executor as pe


class RecProcess:
    spawned = []

    def __init__(self, target=None, args=(), env=None, **kw):
        self.args = args
        self.pid = 1000 + len(RecProcess.spawned)
        self.name = 'RecProcess-%d' % self.pid
        self.sentinel = None

    def start(self):
        RecProcess.spawned.append(self)


class FakeLock:
    def acquire(self, *a, **k):
        return True

    def release(self):
        pass

    def __enter__(self):
        return True

    def __exit__(self, *a):
        pass


class Ctx:
    Process = RecProcess

    def __init__(self, method):
        self.method = method

    def get_start_method(self, allow_none=False):
        return self.method

    def Lock(self):
        return FakeLock()

    def BoundedSemaphore(self, v=1):
        return FakeLock()

    def get_context(self, m=None):
        return self


class FakeQueue:
    def __init__(self, items):
        self.items = list(items)
        self.out = []

    def get(self, block=True, timeout=None):
        return self.items.pop(0)

    def put(self, x):
        self.out.append(x)


class Item:
    work_id = 1

    def __init__(self, seen):
        self.seen = seen

    def __call__(self):
        self.seen["task"] = pe._CURRENT_DEPTH
        return None


def worker_prologue(current_depth):
    """run the real _process_worker on fake queues; returns the depth seen by the initializer and by a task"""
    seen = {}
    saved = (pe._CURRENT_DEPTH, pe._global_shutdown, pe._USE_PSUTIL)
    pe._CURRENT_DEPTH = 0          # a freshly exec'ed interpreter
    pe._USE_PSUTIL = False
    real_gc = pe.gc
    try:
        cq = FakeQueue([Item(seen), None])
        rq = FakeQueue([])
        pe._process_worker(cq, rq, lambda: seen.__setitem__("init", pe._CURRENT_DEPTH), (), FakeLock(), None, FakeLock(), current_depth)
    finally:
        pe._CURRENT_DEPTH, pe._global_shutdown, pe._USE_PSUTIL = saved
    return seen


def replay(case):
    pe.MAX_DEPTH = case["max"]
    # per process: depth shipped by its creator, depth seen in tasks, depth seen in the initializer
    procs = [dict(shipped=0, task=0, init=0)]
    execs = {}
    why = None
    for k, (op, exp) in enumerate(zip(case["steps"], case["exp"])):
        if op[0] == "create":
            _, p, m, place = op
            d = procs[p - 1]["init" if place == "initializer" else "task"]
            saved = pe._CURRENT_DEPTH
            pe._CURRENT_DEPTH = d
            RecProcess.spawned = []
            try:
                try:
                    e = pe.ProcessPoolExecutor(max_workers=1, context=Ctx(m))
                    execs[(p, m)] = (e, d)
                    got = "ok"
                except pe.LokyRecursionError:
                    got = "LokyRecursionError"
                except BaseException as ex:
                    got = "EXC:" + type(ex).__name__
            finally:
                pe._CURRENT_DEPTH = saved
            if got != exp["out"]:
                why = "step %d: creating a %r executor in the %s of a process at depth %d (the code there sees depth %d) with LOKY_MAX_DEPTH=%d gave %s, the property requires %s" % (
                    k + 1, m, place, exp["depths"][p - 1], d, case["max"], got, exp["out"])
                break
            if RecProcess.spawned:
                why = "step %d: executor creation spawned %d processes" % (k + 1, len(RecProcess.spawned))
                break
        else:
            _, p, m, how = op
            e, d = execs[(p, m)]
            saved = pe._CURRENT_DEPTH
            pe._CURRENT_DEPTH = procs[p - 1]["task"]
            RecProcess.spawned = []
            try:
                e._processes.clear()
                e._adjust_process_count()
            finally:
                pe._CURRENT_DEPTH = saved
            if len(RecProcess.spawned) != 1:
                why = "step %d: spawning one worker produced %d processes" % (k + 1, len(RecProcess.spawned))
                break
            shipped = RecProcess.spawned[0].args[7]
            seen = worker_prologue(shipped)
            procs.append(dict(shipped=shipped, task=seen.get("task"), init=seen.get("init")))
            want = exp["depths"][-1]
            if seen.get("task") != want:
                why = "step %d (%s): a task in the new worker sees nesting depth %r, the property requires %d (creator's depth + 1)" % (k + 1, how, seen.get("task"), want)
                break
    return why


def main():
    out = []
    n = 0
    saved_max = pe.MAX_DEPTH
    for line in open(sys.argv[1]):
        c = json.loads(line)
        n += 1
        try:
            why = replay(c)
        except BaseException as ex:
            why = "harness: %s: %s" % (type(ex).__name__, ex)
        if why:
            out.append(dict(i=c["i"], why=why, max=c["max"], steps=c["steps"]))
    pe.MAX_DEPTH = saved_max
    json.dump(dict(n=n, out=out), open(sys.argv[2], "w"))
    sys.stdout.flush()
    os._exit(0)


if __name__ == "__main__":
    main()
