"""E-PURE child for C11: run the real loky.backend.resource_tracker.main(fd) on request streams.

Mode 'replay' : cases.jsonl lines = {"lines": [[fields...], ...], "exp": [[c1, c2, reported], ...]} where exp has
                one entry per line plus one for EOF; c1/c2 = lists of [type, name-fields] cleaned in phase 1/2.
                Valid requests are written by the real client object (ResourceTracker.register/unregister/
                maybe_unlink -> _send); everything else is written as raw bytes.
Mode 'record' : cases.jsonl lines = {"raw": [hex, ...]}: raw byte lines; the observed per-line outputs are
                written back for trace validation by TLC.
Observation (hook-free): _CLEANUP_FUNCS entries replaced by recorders, a module-level `open` wrapper that counts
lines read, sys.excepthook recording the per-line reports.
"""
import os, sys, json, warnings, signal as _signal
import loky.backend.resource_tracker as rt

BAD = "BADBYTES"
real_open = open
CMDS = {"REGISTER": "register", "UNREGISTER": "unregister", "MAYBE_UNLINK": "maybe_unlink"}


class _F:
    def __init__(self, f, st):
        self.f, self.st = f, st

    def readline(self):
        l = self.f.readline()
        if l:
            self.st["line"] += 1
        else:
            self.st["eof"] = True
        return l

    def __iter__(self):
        return self

    def __next__(self):
        l = self.readline()
        if not l:
            raise StopIteration
        return l

    def __enter__(self):
        return self

    def __exit__(self, *a):
        self.f.close()


class _Dummy:
    def close(self):
        pass


STRICT = [False]    # configuration `strict`: the tracker runs with warnings turned into errors (-W error)
FAIL = [False]      # configuration `fail` of ResourceTracker.tla: every destruction attempt raises (after being recorded)


def run_stream(chunks):
    """chunks: list of bytes (one per request line). Returns (cleanups [(type,name,after_line,eof)], reports [line])."""
    calls, reports, st = [], [], {"line": 0, "eof": False}
    r, w = os.pipe()
    for c in chunks:
        os.write(w, c)
    os.close(w)
    return _run_fd(r, calls, reports, st)


def _run_fd(r, calls, reports, st):
    rt.open = lambda fd, mode="rb", *a, **k: _F(real_open(fd, mode, *a, **k), st)
    saved = dict(rt._CLEANUP_FUNCS)
    for k in saved:
        def rec(name, kind=k):
            calls.append((kind, name, st["line"], st["eof"]))
            if FAIL[0]:
                raise FileNotFoundError(2, "No such file or directory (removed behind the tracker's back)")
        rt._CLEANUP_FUNCS[k] = rec
    old_hook, old_sig = sys.excepthook, rt.signal.signal
    sys.excepthook = lambda *a: reports.append(st["line"])
    rt.signal.signal = lambda *a: None
    old_mask = getattr(rt.signal, "pthread_sigmask", None)
    so, si = sys.stdout, sys.stdin
    crashed = None
    try:
        with warnings.catch_warnings(record=True) as ws:
            warnings.simplefilter("error" if STRICT[0] else "always")
            sys.stdin, sys.stdout = _Dummy(), _Dummy()
            try:
                rt.main(r)
            except BaseException as ex:       # the tracker loop stopped: observable failure
                crashed = "%s: %s" % (type(ex).__name__, ex)
    finally:
        sys.stdin, sys.stdout = si, so
        sys.excepthook = old_hook
        rt.signal.signal = old_sig
        rt._CLEANUP_FUNCS.clear()
        rt._CLEANUP_FUNCS.update(saved)
        del rt.open
        try:
            os.close(r)
        except OSError:
            pass
    return calls, reports, crashed, st["line"]


def client_bytes(fields):
    """Bytes for one request line; valid requests go through the real client API."""
    if BAD in fields:
        return b":".join(b"\xff\xfe" if f == BAD else f.encode() for f in fields) + b"\n"
    if len(fields) >= 3 and fields[0] in CMDS:
        r, w = os.pipe()
        c = rt.ResourceTracker()
        c._fd = w
        c.ensure_running = lambda: None
        try:
            getattr(c, CMDS[fields[0]])(":".join(fields[1:-1]), fields[-1])
        finally:
            os.close(w)
        data = os.read(r, 4096)
        os.close(r)
        return data
    return ":".join(fields).encode() + b"\n"


_cache = {}


def line_bytes(fields):
    k = tuple(fields)
    if k not in _cache:
        _cache[k] = client_bytes(fields)
    return _cache[k]


def observe(lines_bytes):
    calls, reports, crashed, nread = run_stream(lines_bytes)
    n = len(lines_bytes)
    per = [dict(c=[], rep=False) for _ in range(n + 1)]
    order_eof = []
    for kind, name, at, eof in calls:
        if eof:
            per[n]["c"].append([kind, name])
            order_eof.append(kind)
        else:
            per[max(at, 1) - 1]["c"].append([kind, name])
    for at in reports:
        per[max(at, 1) - 1]["rep"] = True
    return per, order_eof, crashed, nread


def main():
    mode, inp, outp = sys.argv[1], sys.argv[2], sys.argv[3]
    sys.stderr = open(os.devnull, "w")
    out = []
    n = 0
    with open(inp) as fh:
        for line in fh:
            case = json.loads(line)
            n += 1
            if mode == "replay":
                FAIL[0] = bool(case.get("fail"))
                STRICT[0] = bool(case.get("strict"))
                lb = [line_bytes(f) for f in case["lines"]]
                per, order_eof, crashed, nread = observe(lb)
                why = None
                if crashed:
                    why = "the tracker loop stopped with %s" % crashed
                elif nread != len(lb):
                    why = "the tracker consumed %d of %d lines" % (nread, len(lb))
                else:
                    for i, e in enumerate(case["exp"]):
                        exp_c = sorted([t, ":".join(nm)] for t, nm in (e[0] + e[1]))
                        got_c = sorted(per[i]["c"])
                        what = ("request %d %r" % (i + 1, ":".join(case["lines"][i]))) if i < len(lb) else "end-of-life sweep"
                        if got_c != exp_c:
                            why = "%s destroyed %s, the property requires %s" % (what, got_c, exp_c)
                            break
                        if per[i]["rep"] != e[2]:
                            why = "%s was %s, the property requires it to be %s" % (
                                what, "reported" if per[i]["rep"] else "not reported", "reported and skipped" if e[2] else "accepted silently")
                            break
                    if why is None and "folder" in order_eof:
                        first = order_eof.index("folder")
                        if any(k != "folder" for k in order_eof[first:]):
                            why = "end-of-life sweep destroyed a folder before another kind: order %s" % order_eof
                if why:
                    out.append(dict(i=case.get("i"), lines=case["lines"], why=why))
            else:
                lb = [bytes.fromhex(h) for h in case["raw"]]
                per, order_eof, crashed, nread = observe(lb)
                out.append(dict(i=case.get("i"), per=per, order_eof=order_eof, crashed=crashed, nread=nread))
    json.dump(dict(n=n, out=out), open(outp, "w"))


if __name__ == "__main__":
    main()
