"""E-PURE child for the map clause of C03: the real _get_chunks / _process_chunk / _chain_from_iterable_of_lists pipeline
on the vectors emitted by TLC from MapChunks.tla.  usage: map_child.py <vectors.jsonl> <out.json>"""
import sys, json
from functools import partial
import loky.process_executor as pe


def fold(*args):
    r = 0
    for a in args:
        r = r * 7 + a
    return r


def main():
    out = []
    n = 0
    for line in open(sys.argv[1]):
        v = json.loads(line)
        n += 1
        _, lens, c, want = v
        its = [list(range(i * 100 + 1, i * 100 + k + 1)) for i, k in enumerate(lens, 1)]
        try:
            chunks = list(pe._get_chunks(c, *its))
            results = [partial(pe._process_chunk, fold)(ch) for ch in chunks]
            got = list(pe._chain_from_iterable_of_lists(iter(results)))
            why = None
            if any(len(ch) < 1 or len(ch) > c for ch in chunks):
                why = "chunk sizes %s are not within 1..%d" % ([len(ch) for ch in chunks], c)
            elif got != want:
                why = "yields %s, list(map(fn, *iterables)) is %s" % (got, want)
            elif got != list(map(fold, *its)):
                why = "differs from the builtin map"
        except BaseException as ex:
            why = "raised %s: %s" % (type(ex).__name__, ex)
        if why:
            out.append(dict(lens=lens, chunksize=c, why=why))
    json.dump(dict(n=n, out=out), open(sys.argv[2], "w"))


if __name__ == "__main__":
    main()
