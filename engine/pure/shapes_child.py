"""E-PURE child for the fidelity clause of C15: every shape x probe emitted by TLC from Shapes.tla is built for real,
sent through loky.backend.reduction.dumps / loads under both pickler back-ends, and the COPY is called.
usage: shapes_child.py <vectors.jsonl> <out.json>; vector = ["SHAPE", base, [[args, kw], ...innermost first], probe, pkw, exp_args, exp_kw]"""
import sys, json, functools, pickle
import loky.backend.reduction as R


class Thing:
    def __init__(self, ident):
        self.ident = ident

    def method(self, *args, **kw):
        return ("bound", self.ident, args, tuple(sorted(kw.items())))

    @classmethod
    def cmethod(cls, *args, **kw):
        return ("classm", cls.__name__, args, tuple(sorted(kw.items())))


def static_func(*args, **kw):
    return ("static_func", None, args, tuple(sorted(kw.items())))


BASES = {"bound": lambda: Thing(41).method, "classm": lambda: Thing.cmethod, "static_func": lambda: static_func,
         "descr": lambda: int.bit_length, "wrapper": lambda: int.__add__}
KWV = {"k": 7, "j": 8}


def outcome(fn, args, kw):
    try:
        return ["value", repr(fn(*args, **kw))]
    except BaseException as ex:
        return ["raises", type(ex).__name__]


def main():
    out = []
    n = 0
    for line in open(sys.argv[1]):
        v = json.loads(line)
        n += 1
        _, base, stack, probe, pkw, exp_args, exp_kw = v
        obj = BASES[base]()
        for a, k in stack:
            kw = {k: KWV[k]} if k != "none" else {}
            obj = functools.partial(obj, *a, **kw)
        call_kw = {"k": 9} if pkw == "k" else {}
        want = outcome(BASES[base](), exp_args, {k: val for k, val in exp_kw.items() if val != 0})
        orig = outcome(obj, probe, call_kw)
        for backend in ("cloudpickle", "pickle"):
            R.set_loky_pickler(backend)
            try:
                copy = pickle.loads(bytes(R.dumps(obj)))
                got = outcome(copy, probe, call_kw)
            except BaseException as ex:
                got = ["roundtrip-raises", type(ex).__name__ + ": " + str(ex)[:80]]
            if got != want:
                out.append(dict(vector=v, backend=backend, got=got, want=want, original=orig))
                break
        R.set_loky_pickler("cloudpickle")
    json.dump(dict(n=n, out=out), open(sys.argv[2], "w"))


if __name__ == "__main__":
    main()
