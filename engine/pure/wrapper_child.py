"""E-PURE child for C16: replay TLC histories of Wrapper.tla on real objects wrapped by
loky.cloudpickle_wrapper.wrap_non_picklable_objects. Run as a script so that every object below lives in __main__
(plain pickle cannot serialise them; cloudpickle serialises them by value).
usage: wrapper_child.py <cases.jsonl> <out.json>;  case = {"i":.., "kind":.., "steps":[[op,...]], "exp":[{orig:..,copy:..},...]}"""
import sys, os, json, pickle, inspect
from loky.cloudpickle_wrapper import wrap_non_picklable_objects, CloudpickledObjectWrapper


def make(kind):
    if kind == "lambda":
        return lambda a: "L"
    if kind == "closure":
        def mk():
            n = 0

            def f(a):
                nonlocal n
                n += a
                return n
            return f
        return mk()
    if kind == "rec":
        def r(a):
            return "R" if a <= 0 else r(a - 1)
        return r

    class CallableThing:
        def __init__(self, st=0):
            self.st = st

        def __call__(self, a):
            self.st += a
            return self.st

        def bump(self):
            self.st += 1

    class Thing:
        def __init__(self, st=0):
            self.st = st

        def bump(self):
            self.st += 1
    class InheritsCall(CallableThing):      # callable only through the __call__ of its base class
        pass
    class Slotted:                          # __slots__ and no __getstate__: not picklable below protocol 2
        __slots__ = ("st",)

        def __init__(self, st=0):
            self.st = st

        def bump(self):
            self.st += 1

    class Buffered(Thing):                  # holds a PickleBuffer: serialisable in-band at protocol 5 only
        def __init__(self, st=0):
            Thing.__init__(self, st)
            self.buf = pickle.PickleBuffer(bytearray(b"payload"))
    if kind == "sinst":
        return Slotted(0)
    if kind == "bufinst":
        return Buffered(0)
    if kind == "icinst":
        return InheritsCall(0)
    if kind == "icls":
        return InheritsCall
    if kind == "cinst":
        return CallableThing(0)
    if kind == "inst":
        return Thing(0)
    if kind == "ccls":
        return CallableThing
    if kind == "cls":
        return Thing
    raise AssertionError(kind)


STATEFUL = {"closure", "cinst", "inst", "ccls_inst", "cls_inst", "icinst", "icls_inst", "sinst", "bufinst"}


def project(h, kind):
    if h is None:
        return None
    if inspect.isclass(h):
        wrapped = issubclass(h, CloudpickledObjectWrapper)
        return dict(cls=True, w=[True] if wrapped else [], callable=callable(h))
    w = []
    x = h
    while isinstance(x, CloudpickledObjectWrapper):
        w.append(bool(x._keep_wrapper))
        x = x._obj
    p = dict(cls=False, w=w, callable=callable(h))
    if kind in STATEFUL:
        try:
            if kind == "closure":
                p["st"] = h(0)
            else:
                p["st"] = h.st                   # attribute read forwarded through the wrapper(s)
        except BaseException as ex:
            p["st"] = "EXC:" + type(ex).__name__
    return p


def run(case):
    kind = case["kind"]
    orig = make(kind)
    copy = None
    okind = ckind = kind
    trace = []
    for op in case["steps"]:
        err = None
        try:
            if op[0] == "wrap":
                orig = wrap_non_picklable_objects(orig, keep_wrapper=bool(op[1]))
            elif op[0] == "instantiate":
                orig = orig(op[1])
                okind = {"ccls": "ccls_inst", "icls": "icls_inst"}.get(kind, "cls_inst")
            elif op[0] == "roundtrip":
                src = orig if op[1] == "orig" else copy
                ck = okind if op[1] == "orig" else ckind
                copy = pickle.loads(pickle.dumps(src, protocol=op[2]))
                ckind = ck
            elif op[0] == "call":
                (orig if op[1] == "orig" else copy)(op[2])
            elif op[0] == "bump":
                (orig if op[1] == "orig" else copy).bump()
        except BaseException as ex:
            err = "%s: %s" % (type(ex).__name__, str(ex)[:100])
        trace.append(dict(op=op, err=err, orig=project(orig, okind), copy=project(copy, ckind)))
        if err:
            break
    return trace


def main():
    out = []
    n = 0
    for line in open(sys.argv[1]):
        c = json.loads(line)
        n += 1
        tr = run(c)
        why = None
        for k, (got, exp) in enumerate(zip(tr, c["exp"])):
            op = got["op"]
            if got["err"]:
                why = "step %d %s raised %s" % (k + 1, op, got["err"])
                break
            for hname in ("orig", "copy"):
                g, e = got[hname], exp[hname]
                if e is None:
                    continue
                if g is None:
                    why = "step %d %s: %s is missing" % (k + 1, op, hname)
                    break
                if g["w"] != e["w"]:
                    why = "step %d %s: %s is wrapped as %s (keep flags, outermost first), the property requires %s" % (k + 1, op, hname, g["w"], e["w"])
                    break
                if g["callable"] != e["callable"]:
                    why = "step %d %s: callable(%s) is %s, the property requires %s (callable iff the object is)" % (k + 1, op, hname, g["callable"], e["callable"])
                    break
                if "st" in e and g.get("st") != e["st"]:
                    why = "step %d %s: %s shows state %r through the wrapper, the object's state is %r" % (k + 1, op, hname, g.get("st"), e["st"])
                    break
            if why:
                break
        if why is None and len(tr) < len(c["exp"]):
            why = "history stopped after %d steps" % len(tr)
        if why:
            out.append(dict(i=c["i"], why=why, kind=c["kind"], steps=c["steps"]))
    json.dump(dict(n=n, out=out), open(sys.argv[2], "w"))


if __name__ == "__main__":
    main()
