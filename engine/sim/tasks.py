"""Task bodies run by the simulated workers of E-SIM (module-level so that they pickle by reference).
Every body logs Start/Finish with its own task id and the pid of the simulated process it runs in, and returns a
value that encodes its own submission, so a mis-routed or duplicated task cannot produce the expected value."""
import os
import threading
from . import esim

RELEASED = set()


def _log(ev, tid):
    esim.S.obs(ev=ev, t=tid, pid=esim.my_proc())


class Unpicklable:
    def __init__(self, tag):
        self.tag = tag

    def __reduce__(self):
        raise ValueError("cannot pickle %s" % self.tag)


class UnpicklableOS:
    """pickling it fails with an OSError (e.g. a file-backed argument whose file vanished)"""

    def __init__(self, tag, errno=2):
        self.tag = tag
        self.errno = errno

    def __reduce__(self):
        # 2: a file that vanished; 9: a descriptor that was closed (a closed socket as argument); 32: a reducer that talks to
        # a peer that is gone (BrokenPipeError)
        raise OSError(self.errno, "%s: %s" % (os.strerror(self.errno), self.tag))


class UnpicklableError(Exception):
    def __init__(self, tag="x"):
        Exception.__init__(self, tag)
        self.lock = threading.Lock()     # a lock cannot be pickled


class Unloadable:
    """pickles fine, fails to unpickle"""

    def __init__(self, tag):
        self.tag = tag

    def __reduce__(self):
        return (_fail_load, (self.tag,))


def _fail_load(tag):
    raise RuntimeError("cannot unpickle %s" % tag)


def value_of(tid):
    return ["value", tid, tid * 7 + 1]


def body_kw(tid, salt=0, kind="ok"):
    """called through functools.partial(body_kw, salt=..., kind=...): the bound keywords are part of the task"""
    v = body(tid, kind)
    return ["kw", tid, salt] if v == value_of(tid) else v


def body(tid, kind, arg=None):
    _log("start", tid)
    try:
        tr = esim.S.__dict__.setdefault("tasks_run", {})
        tr[esim.my_proc()] = tr.get(esim.my_proc(), 0) + 1
        esim.S.step("task.run")
        if kind == "ok":
            return value_of(tid)
        if kind == "raise":
            raise ValueError("task %s" % tid)
        if kind == "sysexit":
            raise SystemExit(3)
        if kind == "kbint":
            raise KeyboardInterrupt("task %s" % tid)
        if kind == "unpicklable_result":
            return Unpicklable("result %s" % tid)
        if kind == "unloadable_result":
            return Unloadable("result %s" % tid)
        if kind == "unpicklable_exc":
            raise UnpicklableError("task %s" % tid)
        if kind == "big":
            return ["value", tid, "x" * 20000]
        if kind == "long":
            esim.S.step("task.long(%s)" % tid, pred=lambda: tid in RELEASED)
            return value_of(tid)
        if kind == "crash":
            esim.S.step("task.crash(%s)" % tid)
            esim.crash(esim.my_proc(), arg if arg is not None else 3, how="crash")
            esim.S.step("task.dead")          # never scheduled again
            raise esim.SimCrash()
        if kind == "tagged":
            return ["tagged", tid, seen_as(arg), Tagged(tid)]
        if kind == "pickler":
            from loky.backend.reduction import get_loky_pickler_name
            return ["pickler", tid, get_loky_pickler_name()]
        if kind == "pid":
            return ["pid", tid, esim.my_proc(), INIT.get(esim.my_proc())]
        raise AssertionError("unknown kind %r" % kind)
    finally:
        _log("finish", tid)


class Scaler:
    """a callable with state, sent to the workers through loky.wrap_non_picklable_objects"""
    def __init__(self):
        self.k = 0

    def __call__(self, tid):
        return ["wrapped", tid, self.k]


_WRAPPED = [None]


def wrapped():
    if _WRAPPED[0] is None:
        from loky import wrap_non_picklable_objects
        _WRAPPED[0] = wrap_non_picklable_objects(Scaler())
    return _WRAPPED[0]


def body_wrapped(tid, w):
    _log("start", tid)
    try:
        esim.S.step("task.run")
        return w(tid)
    finally:
        _log("finish", tid)


INIT = {}


def initializer(mark, fail_pids=()):
    pid = esim.my_proc()
    esim.S.obs(ev="init", pid=pid)
    esim.S.step("init")
    if "all" in fail_pids or pid in fail_pids:
        raise RuntimeError("initializer failed in %s" % pid)
    INIT[pid] = mark


def chunk_fn(x, y=0):
    return x * 10 + y


def _fold(*args):
    r = 0
    for a in args:
        r = r * 7 + a
    return r


def fold(*args):
    esim.S.step("task.run")
    return _fold(*args)


fold.__wrapped__ = _fold


class Tagged:
    def __init__(self, v):
        self.v = v


class ArrivedTag:
    def __init__(self, tag):
        self.tag = tag


_REDUCERS = {}


def make_reducer(tag):
    # one function per tag: two requests for "the same reducers" must compare equal (get_reusable_executor's reuse decision)
    if tag not in _REDUCERS:
        def red(obj):
            return ArrivedTag, (tag,)
        _REDUCERS[tag] = red
    return _REDUCERS[tag]


def reducers(name):
    """scenario value -> reducers argument: None -> None (default), "empty" -> {} (explicitly none), tag -> {Tagged: reducer}"""
    if name is None:
        return None
    if name == "empty":
        return {}
    return {Tagged: make_reducer(name)}


def seen_as(x):
    return x.tag if isinstance(x, ArrivedTag) else ("plain" if isinstance(x, Tagged) else "other")
