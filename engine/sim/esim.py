"""E-SIM: the REAL loky executor code (submit / manager thread / queue feeder / _process_worker / shutdown / _resize /
get_reusable_executor ...) running inside one interpreter on MODELLED primitives, under a deterministic scheduler.

* every loky thread and every simulated worker *process* is a real Python thread that runs only when the controller
  hands it the baton; every operation on a modelled primitive is a scheduling point (`Sched.step`);
* what is substituted -- at run time, from here, never in the repository -- are module globals of
  loky.process_executor, loky.reusable_executor, loky.backend.queues, loky.backend.utils, multiprocessing.queues:
  threading (Lock/RLock/Condition, Thread.start/join), the Pipe factory, wait, time/sleep, kill_process_tree, os.getpid,
  and the context object handed to the executor (Lock, BoundedSemaphore, Process);
* a crash is: the threads of that process are never scheduled again, its sentinel becomes ready, its pipe ends are
  closed, its semaphores stay as they are (POSIX semantics);
* process-local module globals (_global_shutdown, _CURRENT_DEPTH, _threads_wakeups, ...) are swapped with the baton.

The controller (the calling thread) owns the schedule: `Sched.run(policy)`.
"""
import os, sys, pickle, random, threading, itertools, collections, errno, time as _rtime, weakref, gc, types

_real_start = threading.Thread.start
_real_join = threading.Thread.join
_real_is_alive = threading.Thread.is_alive


class SimCrash(BaseException):
    """raised inside a simulated thread that must stop (only used to unwind at interpreter teardown)"""


class Sched:
    def __init__(self):
        self.cv = threading.Condition()
        self.cur = "ctl"
        self.recs = {}             # name -> rec
        self.by_thread = {}        # real thread -> rec
        self.decisions = []        # (name, label, outcome)
        self.trace = []            # observation events (dicts)
        self.now = 0.0
        self.cur_proc = "parent"
        self.proc_globals = {}
        self.local_names = []
        self.fresh = {}
        self.procs = {}            # pid -> SimProcess
        self.nsteps = 0
        self.names = itertools.count(1)
        self.drift = None
        self.poison = False

    # ---------------- simulated-thread side
    def rec(self):
        return self.by_thread.get(threading.current_thread())

    def step(self, label, pred=None, timed=None):
        """scheduling point; returns 'ok' or 'timeout'. timed = duration of the timeout (None = none)."""
        r = self.rec()
        if r is None:
            return "ok"
        if self.poison:
            raise SimCrash()
        if r.get("doomed"):
            # a thread of a process that killed itself (task kind `crash`): it never runs again
            r.update(label=label, pred=None, timed=None, state="dead", res=None)
            self._give("ctl")
            self._wait_turn(r)
            raise SimCrash()
        r.update(label=label, pred=pred, timed=timed, state="ready", res=None)
        if label.split(":")[-1] == "cq.rlock.acq":
            r["since_get"] = []
        else:
            r.setdefault("since_get", []).append(label)
        self._give("ctl")
        self._wait_turn(r)
        r["state"] = "run"
        if r["res"] == "kill":
            raise SimCrash()
        return r["res"]

    def _give(self, who):
        with self.cv:
            self.cur = who
            self.cv.notify_all()

    def _wait_turn(self, r):
        with self.cv:
            while self.cur is not r:
                self.cv.wait()

    def obs(self, **ev):
        self.trace.append(ev)

    # ---------------- controller side
    def spawn(self, thread, name, proc, fn=None):
        base = name
        k = 1
        while name in self.recs:
            k += 1
            name = "%s#%d" % (base, k)
        r = dict(name=name, proc=proc, label="start", pred=None, timed=None, state="ready", res=None, thread=thread,
                 nops=0, role=base)
        self.recs[name] = r
        self.by_thread[thread] = r
        orig_run = thread.run if fn is None else fn

        def run():
            self._wait_turn(r)
            r["state"] = "run"
            try:
                if r["res"] != "kill":
                    orig_run()
            except SimCrash:
                pass
            except SystemExit:
                pass
            except BaseException as ex:       # an exception escaping a thread: the thread dies where it stands
                import traceback
                r["exc"] = "%s: %s" % (type(ex).__name__, ex)
                r["exc_tb"] = traceback.format_exc()[-1500:]
            finally:
                r["state"] = "done"
                r["label"] = "done"
                self._give("ctl")
        thread.run = run
        _real_start(thread)
        return r

    def swap_globals(self, proc):
        if proc == self.cur_proc:
            return
        save = self.proc_globals.setdefault(self.cur_proc, {})
        for mod, name in self.local_names:
            save[(mod, name)] = getattr(mod, name)
        load = self.proc_globals.get(proc)
        if load is None:
            load = self.proc_globals[proc] = {k: self.fresh[k]() for k in self.fresh}
        for (mod, name), v in load.items():
            setattr(mod, name, v)
        self.cur_proc = proc

    def run_one(self, r, outcome="ok"):
        r["res"] = outcome
        r["nops"] += 1
        self.nsteps += 1
        self.decisions.append((r["name"], r["label"], outcome))
        self.swap_globals(r["proc"])
        self._give(r)
        with self.cv:
            while self.cur != "ctl":
                self.cv.wait()
        self.swap_globals("parent")

    def ready(self):
        return [r for r in self.recs.values() if r["state"] == "ready"]

    def enabled(self):
        out = []
        for r in self.ready():
            p = r["pred"]
            try:
                if p is None or p():
                    out.append(r)
            except Exception:
                out.append(r)
        return out

    def blocked_timed(self):
        out = []
        for r in self.ready():
            if r["timed"] is not None and r["pred"] is not None and not r["pred"]():
                out.append(r)
        return out

    def kill_proc(self, pid):
        for r in self.recs.values():
            if r["proc"] == pid and r["state"] == "ready":
                r["state"] = "dead"
            elif r["proc"] == pid and r["state"] == "run":
                r["doomed"] = True

    def teardown(self):
        """release every parked thread so that the interpreter can exit"""
        for r in list(self.recs.values()):
            if r["state"] in ("ready", "dead"):
                r["state"] = "ready"
                r["res"] = "kill"
                self._give(r)
                with self.cv:
                    self.cv.wait_for(lambda: self.cur == "ctl", timeout=0.2)
                self.cur = "ctl"


S = None   # current scheduler


def me():
    r = S.rec()
    return r["name"] if r else "ctl"


def my_proc():
    r = S.rec()
    return r["proc"] if r else "parent"


# ------------------------------------------------------------------------------------------------------------
# modelled primitives
class _SemLockView:
    def __init__(self, o):
        self.o = o

    def _is_zero(self):
        S.step(self.o.name + ".iszero")
        return self.o.v == 0

    def _get_value(self):
        return self.o.v

    def _is_mine(self):
        return self.o.owner == me()

    def _count(self):
        return self.o.count if self.o.owner == me() else 0


class SimSem:
    """counting semaphore / lock shared by every simulated process; NOT released when its holder dies"""

    def __init__(self, value=1, maxvalue=None, name="sem", recursive=False):
        self.v, self.max, self.name, self.owner, self.count, self.recursive = value, maxvalue, name, None, 0, recursive
        self._semlock = _SemLockView(self)
        self.holder_proc = None

    def acquire(self, block=True, timeout=None):
        if block is not True and block is not False:
            block = bool(block)
        m = me()
        if self.recursive and self.owner == m:
            self.count += 1
            return True
        if not block:
            S.step(self.name + ".try")
            if self.v > 0:
                self._take(m)
                return True
            return False
        r = S.step(self.name + ".acq", pred=lambda: self.v > 0, timed=timeout)
        if r != "ok":
            return False
        self._take(m)
        return True

    def _take(self, m):
        self.v -= 1
        self.owner, self.count, self.holder_proc = m, 1, my_proc()

    def release(self):
        m = me()
        if self.recursive and self.owner == m and self.count > 1:
            self.count -= 1
            return
        S.step(self.name + ".rel")
        if self.max is not None and self.v >= self.max:
            raise ValueError("semaphore or lock released too many times")
        self.v += 1
        self.owner, self.count = None, 0

    def locked(self):
        return self.v == 0

    def __enter__(self):
        return self.acquire()

    def __exit__(self, *a):
        self.release()

    # pickling into a simulated child shares the kernel object
    def __reduce__(self):
        return (_ident, (_Ref(self),))


class _Ref:
    """identity-preserving reference used when sim objects are 'pickled' to a simulated child"""
    _tab = {}

    def __init__(self, o):
        self.k = id(o)
        _Ref._tab[self.k] = o

    def __reduce__(self):
        return (_Ref._get, (self.k,))

    @staticmethod
    def _get(k):
        return _Ref._tab[k]


def _ident(o):
    return o


class SimCondition:
    """threading.Condition over a SimSem lock"""

    def __init__(self, lock=None):
        self.lock = lock if lock is not None else SimSem(1, 1, "cond.lock", recursive=True)
        self.waiters = []
        self.acquire, self.release = self.lock.acquire, self.lock.release

    def __enter__(self):
        return self.lock.acquire()

    def __exit__(self, *a):
        self.lock.release()

    def wait(self, timeout=None):
        tok = [False]
        self.waiters.append(tok)
        self.lock.release()
        r = S.step(self.lock.name.replace(".lock", "") + ".wait", pred=lambda: tok[0], timed=timeout)
        if r != "ok" and tok in self.waiters:
            self.waiters.remove(tok)
        self.lock.acquire()
        return r == "ok"

    def notify(self, n=1):
        for _ in range(n):
            if self.waiters:
                self.waiters.pop(0)[0] = True

    def notify_all(self):
        self.notify(len(self.waiters))


class Chan:
    def __init__(self, name):
        self.name = name
        self.q = collections.deque()     # complete messages (bytes) or ["partial", bytes]
        self.readers = set()             # open SimConn read ends
        self.writers = set()


_fd = itertools.count(1000)
PARTIAL_THRESHOLD = 16384                # send_bytes issues two writes above this size (header, payload)
PIPE_CAPACITY = 65536                    # a larger payload blocks its writer until a reader drains the pipe


class SimConn:
    def __init__(self, chan, readable, writable, proc="parent"):
        self.chan, self.readable, self.writable, self.proc = chan, readable, writable, proc
        self.closed = False
        self._fd = next(_fd)
        (chan.readers if readable else chan.writers).add(self)
        self.name = chan.name + (".r" if readable else ".w")

    def fileno(self):
        if self.closed:
            raise OSError("handle is closed")
        return self._fd

    def _check(self):
        if self.closed:
            raise OSError("handle is closed")

    def send_bytes(self, b, offset=0, size=None):
        self._check()
        b = bytes(b)
        S.step(self.name + ".send")
        if not self.chan.readers:
            raise BrokenPipeError(errno.EPIPE, "Broken pipe")
        if len(b) > PARTIAL_THRESHOLD:
            item = ["partial", b, False]          # [state, payload, a reader has started to drain it]
            self.chan.q.append(item)
            if len(b) > PIPE_CAPACITY:
                # the payload does not fit in the pipe buffer: write() returns once a reader drains it, or fails with
                # EPIPE when the last read end gets closed; until then the writer is blocked
                S.step(self.name + ".send2", pred=lambda: item[2] or not self.chan.readers)
                if not item[2]:
                    if item in self.chan.q:
                        self.chan.q.remove(item)
                    raise BrokenPipeError(errno.EPIPE, "Broken pipe")
            else:
                S.step(self.name + ".send2")          # a crash here leaves a half-written message
            item[0] = "full"
        else:
            self.chan.q.append(["full", b, False])

    def send(self, obj):
        self.send_bytes(pickle.dumps(obj))

    def _ready(self):
        return (len(self.chan.q) > 0 and (self.chan.q[0][0] == "full" or len(self.chan.q[0][1]) > PIPE_CAPACITY)) or (not self.chan.q and not self.chan.writers)

    def _has_data(self):
        return len(self.chan.q) > 0 or not self.chan.writers

    def recv_bytes(self, maxlength=None):
        self._check()
        S.step(self.name + ".recv", pred=self._ready)
        if not self.chan.q:
            raise EOFError
        head = self.chan.q[0]
        if head[0] != "full":
            # a payload larger than the pipe: reading the first part unblocks its writer; the rest follows
            head[2] = True
            S.step(self.name + ".recv2", pred=lambda: head[0] == "full")
        self.chan.q.remove(head)
        return head[1]

    def recv(self):
        from multiprocessing.reduction import ForkingPickler
        return ForkingPickler.loads(self.recv_bytes())

    def poll(self, timeout=0.0):
        self._check()
        if not timeout:
            S.step(self.name + ".poll0")
            return self._has_data()
        r = S.step(self.name + ".poll", pred=self._has_data, timed=timeout)
        return r == "ok"

    def close(self):
        if not self.closed:
            self.closed = True
            (self.chan.readers if self.readable else self.chan.writers).discard(self)

    def ready(self):            # for sim_wait
        return (not self.closed) and self._has_data()

    def dup_for(self, proc):
        return SimConn(self.chan, self.readable, self.writable, proc)

    def __enter__(self):
        return self

    def __exit__(self, *a):
        self.close()


_pipe_names = itertools.count(1)
PIPE_ROLE = []      # roles assigned in creation order by the harness (wakeup, cq, rq)


def sim_pipe(duplex=False):
    n = next(_pipe_names)
    name = PIPE_ROLE.pop(0) if PIPE_ROLE else "pipe%d" % n
    ch = Chan(name)
    return SimConn(ch, True, False, my_proc()), SimConn(ch, False, True, my_proc())


class Sentinel:
    def __init__(self, p):
        self.p = p

    def ready(self):
        return self.p._dead


def sim_wait(objs, timeout=None):
    S.step("wait", pred=lambda: any(o.ready() for o in objs), timed=timeout)
    return [o for o in objs if o.ready()]


_pids = itertools.count(101)


class SimProcess:
    _counter = itertools.count(1)

    def __init__(self, group=None, target=None, name=None, args=(), kwargs={}, daemon=None, env=None, init_main_module=True):
        self.target, self.args, self.kwargs, self.env = target, args, kwargs, env
        self.pid = None
        self._dead = False
        self._exitcode = None
        self.name = name or "SimProcess"
        self.sentinel = Sentinel(self)
        self.conns = []
        self.how = None
        self._started = False
        self._reaped = False

    def start(self):
        from multiprocessing import context as mpc
        S.step("spawn")
        self.pid = next(_pids)
        self.name = "W%d" % self.pid
        self._started = True
        S.procs[self.pid] = self
        mpc.set_spawning_popen(self)
        try:
            args = []
            for a in self.args:      # queues are handed over through their own get/setstate, like a real spawn
                if type(a).__module__.startswith("loky.") and hasattr(a, "__getstate__") and hasattr(a, "__setstate__") \
                        and type(a).__name__ in ("Queue", "_SafeQueue", "SimpleQueue"):
                    st = a.__getstate__()
                    st = tuple(self._dup(x) for x in st)
                    b = type(a).__new__(type(a))
                    saved = S.cur_proc
                    b.__setstate__(st)
                    a = b
                args.append(a)
        finally:
            mpc.set_spawning_popen(None)
        S.obs(ev="spawn", pid=self.pid)

        def body():
            try:
                self.target(*args, **self.kwargs)
                code = 0
            except SystemExit as e:
                code = e.code if isinstance(e.code, int) else (0 if e.code is None else 1)
            except SimCrash:
                raise
            except BaseException as ex:
                code = 1
                self.exc = "%s: %s" % (type(ex).__name__, ex)
            self._exit(code, "exit")
        th = threading.Thread(target=body, name=self.name, daemon=True)
        S.spawn(th, self.name, proc=self.pid, fn=body)

    def _dup(self, x):
        if isinstance(x, SimConn):
            c = x.dup_for(self.pid)
            self.conns.append(c)
            return c
        return x

    def _exit(self, code, how):
        if self._dead:
            return
        self._dead = True
        self._exitcode = code
        self.how = how
        for c in self.conns:
            c.close()
        at = getattr(self, "died_at", "")
        # a death after the worker's own exit announcement (it is waiting for / holds its exit lock, or is past it)
        late = at.startswith("exitlock") or at.startswith("gslock") or at in ("done",)
        # why a clean exit happened: the worker went through its idle-timeout path, or it received a sentinel
        hist = []
        for r in S.recs.values():
            if r["proc"] == self.pid:
                hist = r.get("since_get", [])
        reason = "timeout" if any(l.endswith("mgmt.try") for l in hist) else "sentinel"
        # died while writing its exit announcement (put(pid)): on the result queue and not since a task ran
        ann = at.split(":")[-1].startswith("rq.") and not any(l.endswith("task.run") for l in hist)
        S.obs(ev="die", pid=self.pid, how=how, code=code, at=at, late=late, ann=ann, reason=reason if how == "exit" else how)

    @property
    def exitcode(self):
        # a program that ignores SIGCHLD cannot learn how its children ended: waitpid fails with ECHILD and the exit code of a
        # finished process stays None (scenario input S.no_exitcode)
        return None if getattr(S, "no_exitcode", False) else self._exitcode

    def is_alive(self):
        S.step("is_alive(%s)" % self.pid)
        if self._dead:
            self._reaped = True
        return not self._dead

    def join(self, timeout=None):
        S.step("pjoin(%s)" % self.pid, pred=lambda: self._dead, timed=timeout)
        if self._dead:
            self._reaped = True

    def kill(self):
        crash(self.pid, -9, how="killed")

    terminate = kill

    def close(self):
        pass


def crash(pid, code=-11, how="crash"):
    """environment action: abrupt death of a simulated process"""
    p = S.procs[pid]
    if p._dead:
        return False
    at = [r["label"] for r in S.recs.values() if r["proc"] == pid and r["state"] in ("ready", "run")]
    p.died_at = at[0] if at else "?"
    S.kill_proc(pid)
    p._exit(code, how)
    return True


def sim_kill_tree(p, use_psutil=None):
    S.step("killtree(%s)" % p.pid)
    if not p._dead:
        crash(p.pid, -9, how="killed")
    p._reaped = True


class SimContext:
    Process = SimProcess
    _name = "loky"

    def Lock(self):
        n = LOCK_ROLE.pop(0) if LOCK_ROLE else "ctxlock%d" % next(S.names)
        return SimSem(1, 1, n)

    def RLock(self):
        return SimSem(1, 1, "ctxrlock%d" % next(S.names), recursive=True)

    def BoundedSemaphore(self, v=1):
        n = SEM_ROLE.pop(0) if SEM_ROLE else "exitlock%d" % next(S.names)
        return SimSem(v, v, n)

    def Semaphore(self, v=1):
        return SimSem(v, None, "ctxsem%d" % next(S.names))

    def get_start_method(self, allow_none=False):
        return "loky"

    def get_context(self, method=None):
        return self


LOCK_ROLE = []
SEM_ROLE = []


class Facade:
    def __init__(self, real, **over):
        self.__dict__["_real"] = real
        self.__dict__.update(over)

    def __getattr__(self, n):
        return getattr(self._real, n)


class SimThreadLock:
    """threading.Lock()/RLock() replacement used by loky module code"""
    pass


def install():
    """substitute module globals; returns the loky.process_executor module"""
    global S
    import multiprocessing as mp, multiprocessing.queues as mq, multiprocessing.util as mu
    import loky.process_executor as pe, loky.backend.queues as lq, loky.backend.utils as lu
    import loky.reusable_executor as ru

    def t_start(self):
        r = S.rec() if S else None
        if r is not None:
            S.step("tstart(%s)" % self.name)
            S.spawn(self, self.name.replace("ExecutorManagerThread", "mgr").replace("QueueFeederThread", "feeder"), r["proc"])
        else:
            _real_start(self)

    def t_join(self, timeout=None):
        r = S.rec() if S else None
        tr = S.by_thread.get(self) if S else None
        if r is not None and tr is not None:
            S.step("tjoin(%s)" % tr["role"], pred=lambda: tr["state"] in ("done", "dead"), timed=timeout)
        elif tr is not None:
            return
        else:
            _real_join(self, timeout)

    def t_is_alive(self):
        tr = S.by_thread.get(self) if S else None
        if tr is not None:
            return tr["state"] not in ("done", "dead")
        return _real_is_alive(self)
    threading.Thread.start, threading.Thread.join, threading.Thread.is_alive = t_start, t_join, t_is_alive

    def mk_lock():
        return SimSem(1, 1, TLOCK_ROLE.pop(0) if TLOCK_ROLE else "tlock%d" % next(S.names))

    def mk_rlock():
        return SimSem(1, 1, "trlock%d" % next(S.names), recursive=True)

    def mk_cond(lock=None):
        if lock is None:
            lock = SimSem(1, 1, "cond%d.lock" % next(S.names), recursive=True)
        return SimCondition(lock)
    simthreading = Facade(threading, Lock=mk_lock, RLock=mk_rlock, Condition=mk_cond)

    def sim_sleep(d):
        if d >= 10:
            # a long pause (e.g. a slow done-callback): the thread is out of the game until time has passed -- shorter
            # timers (idle timeouts, the 30 s exit handshake) fire first
            S.step("sleep.long", pred=lambda: False, timed=d)
            S.now += d
            return
        S.step("sleep")
        S.now += d
    simtime = Facade(_rtime, monotonic=lambda: S.now, time=lambda: S.now, sleep=sim_sleep)
    mq.connection = Facade(mq.connection, Pipe=sim_pipe)
    mq.threading = simthreading
    mq.time = simtime
    lq.threading = simthreading
    pe.threading = simthreading
    pe.mp = Facade(mp, Pipe=sim_pipe)
    pe.wait = sim_wait
    pe.sleep = sim_sleep
    pe.time = lambda: S.now
    pe.kill_process_tree = sim_kill_tree
    # memory-leak recycling of workers (psutil branch of _process_worker): off unless the scenario gives a leak plan
    # (S.leak_after = k: a worker's memory has grown past the limit once it has run k tasks); the check delay is
    # neutralised so that the check follows every task
    pe._USE_PSUTIL = False
    pe._MEMORY_LEAK_CHECK_DELAY = -1.0

    def sim_memory_usage(pid, force_gc=False):
        S.step("mem.usage")
        k = getattr(S, "leak_after", None)
        n = getattr(S, "tasks_run", {}).get(my_proc(), 0)
        return int(4e8) if (k and n >= k) else 0
    pe._get_memory_usage = sim_memory_usage

    def sim_collect(*a):
        # garbage collection is an explicit environment step of the simulation (see harness); running the cyclic
        # collector from inside a simulated thread would switch threads in the middle of a collection
        S.step("gc")
        return 0
    pe.gc = Facade(gc, collect=sim_collect)

    def sim_getpid():
        p = my_proc()
        return p if p != "parent" else os.getpid()
    pe.os = Facade(os, getpid=sim_getpid)
    lq.os = Facade(os, getpid=sim_getpid)
    lu.time = simtime
    ru.time = simtime
    ru.threading = simthreading
    # process-local globals
    return pe, ru


TLOCK_ROLE = []


def new_sched(pe, ru):
    global S
    S = Sched()
    import loky.backend.reduction as lr
    if not hasattr(new_sched, "_pick0"):
        new_sched._pick0 = (lr._LokyPickler, lr._loky_pickler_name)
    S.local_names = [(lr, "_LokyPickler"), (lr, "_loky_pickler_name"), (pe, "_global_shutdown"), (pe, "_threads_wakeups"), (pe, "_CURRENT_DEPTH"),
                     (pe, "process_pool_executor_at_exit"), (pe, "_global_shutdown_lock"),
                     (ru, "_executor"), (ru, "_executor_kwargs"), (ru, "_next_executor_id"), (ru, "_executor_lock")]
    S.fresh = {(lr, "_LokyPickler"): lambda: new_sched._pick0[0], (lr, "_loky_pickler_name"): lambda: new_sched._pick0[1],
               (pe, "_global_shutdown"): lambda: False,
               (pe, "_threads_wakeups"): weakref.WeakKeyDictionary,
               (pe, "_CURRENT_DEPTH"): lambda: 0,
               (pe, "process_pool_executor_at_exit"): lambda: 1,      # never register a real atexit hook
               (pe, "_global_shutdown_lock"): lambda: SimSem(1, 1, "gslock"),
               (ru, "_executor"): lambda: None, (ru, "_executor_kwargs"): lambda: None,
               (ru, "_next_executor_id"): lambda: 0,
               (ru, "_executor_lock"): lambda: SimSem(1, 1, "exlock", recursive=True)}
    for (mod, name), f in S.fresh.items():
        setattr(mod, name, f())
    S.cur_proc = "parent"
    del PIPE_ROLE[:], LOCK_ROLE[:], SEM_ROLE[:], TLOCK_ROLE[:]
    _Ref._tab.clear()
    return S
