"""E-SIM harness: executes one *scenario* (a history of API calls by one or more user threads, an executor
configuration, an environment plan of crashes / timeouts) under one *policy* (who moves next), records the
API-level observation trace and the end state.  Verdicts are NOT taken here: the traces go to the TLA+ monitors.

Child entry point:  python -m engine.sim.harness <cases.jsonl> <out.jsonl>
"""
import functools
import os, sys, json, gc, random, threading, warnings, struct, io, traceback, dis

from . import esim, tasks

pe = ru = None


def setup():
    global pe, ru
    if pe is None:
        os.environ["PYTHONFAULTHANDLER"] = "0"
        pe, ru = esim.install()
        gc.disable()
        warnings.simplefilter("ignore")
        import logging
        logging.getLogger("concurrent.futures").setLevel(logging.CRITICAL + 1)
        _patch_conn()


def _patch_conn():
    orig = esim.SimConn.send_bytes

    def send_bytes(self, b, offset=0, size=None):
        if b"__TOO_LARGE__" in bytes(b):
            raise struct.error("'i' format requires -2147483648 <= number <= 2147483647")
        return orig(self, b, offset, size)
    esim.SimConn.send_bytes = send_bytes


class TooLarge:
    def __init__(self):
        self.marker = "__TOO_LARGE__"


class StepDict(dict):
    """dict whose mutations / iterations are scheduling points (shared executor state is racy by design)"""
    role = "dict"

    def __setitem__(self, k, v):
        esim.S.step(self.role + ".set")
        dict.__setitem__(self, k, v)

    def __delitem__(self, k):
        esim.S.step(self.role + ".del")
        dict.__delitem__(self, k)

    def pop(self, *a):
        esim.S.step(self.role + ".pop")
        return dict.pop(self, *a)

    def popitem(self):
        esim.S.step(self.role + ".popitem")
        return dict.popitem(self)

    def clear(self):
        esim.S.step(self.role + ".clear")
        dict.clear(self)

    def values(self):
        if self.role == "pending":
            return _StepIter(self, dict.values(self))
        return dict.values(self)


class _StepIter:
    def __init__(self, d, view):
        self.d, self.view = d, view

    def __iter__(self):
        # a `for` loop over the view can be interleaved with other threads between two items; a C-level consumer
        # such as list(view) runs under the GIL without a bytecode boundary, i.e. atomically
        fr = sys._getframe(1)
        try:
            op = dis.opname[fr.f_code.co_code[fr.f_lasti]]
        except Exception:
            op = "FOR_ITER"
        it = iter(self.view)
        if op not in ("FOR_ITER", "GET_ITER"):
            yield from it
            return
        while True:
            esim.S.step(self.d.role + ".iter")
            try:
                x = next(it)     # raises RuntimeError if the dict changed size, as the interpreter does
            except StopIteration:
                return
            yield x

    def __len__(self):
        return len(self.view)


class StepList(list):
    role = "running"

    def __iadd__(self, other):
        esim.S.step(self.role + ".add")
        list.extend(self, other)
        return self

    def remove(self, x):
        esim.S.step(self.role + ".remove")
        list.remove(self, x)


_BASE_FUTURE = []


def make_future_class():
    if not _BASE_FUTURE:
        _BASE_FUTURE.append(pe.Future)
    base = _BASE_FUTURE[0]

    class SimFuture(base):
        def set_result(self, r):
            esim.S.step("fut.set_result")
            return base.set_result(self, r)

        def set_exception(self, e):
            esim.S.step("fut.set_exception")
            return base.set_exception(self, e)

        def set_running_or_notify_cancel(self):
            esim.S.step("fut.set_running")
            return base.set_running_or_notify_cancel(self)

        def cancel(self):
            esim.S.step("fut.cancel")
            return base.cancel(self)

        # reads of the future's state are scheduling points too: a decision taken on one of them can be stale by the
        # time it is acted upon
        def cancelled(self):
            esim.S.step("fut.cancelled")
            return base.cancelled(self)

        def running(self):
            esim.S.step("fut.running")
            return base.running(self)

        def done(self):
            esim.S.step("fut.done")
            return base.done(self)
    return SimFuture


class Scenario:
    def __init__(self, scn):
        self.scn = scn
        self.futs = {}
        self.execs = []           # every executor object ever obtained (strong refs kept in holder dict)
        self.holder = {}          # name -> executor (user-visible references)
        self.nexec = 0
        self.maxreg = {}
        self.rejected = set()

    # ---- executor creation with named primitives
    def _roles(self):
        self.nexec += 1
        p = "" if self.nexec == 1 else "e%d:" % self.nexec
        esim.LOCK_ROLE[:] = [p + "mgmt", p + "cq.rlock", p + "cq.wlock", p + "rq.rlock", p + "rq.wlock"]
        esim.TLOCK_ROLE[:] = [p + "shut", p + "cq.ne.lock"]
        esim.PIPE_ROLE[:] = [p + "wk", p + "cq", p + "rq"]
        esim.SEM_ROLE[:] = [p + "cq.sem"]

    def _instrument(self, e):
        if getattr(e, "_sim_instrumented", False):
            return
        e._sim_instrumented = True
        try:
            pend, run_, procs = StepDict(), StepList(), StepDict()
            pend.role, run_.role, procs.role = "pending", "running", "procs"
            pend.update(e._pending_work_items)
            e._pending_work_items = pend
            e._running_work_items = run_
            e._processes = procs
            e._call_queue.pending_work_items = pend
            e._call_queue.running_work_items = run_
        except AttributeError as ex:      # a refactoring renamed the attributes: lose this interleaving grain only
            esim.S.obs(ev="note", what="containers not instrumented: %s" % ex)
        self.execs.append(e)

    def make_exec(self):
        c = self.scn["exec"]
        kw = {}
        if c.get("initializer"):
            kw["initializer"] = tasks.initializer
            kw["initargs"] = ("mark", tuple(c.get("init_fail", ())))
        self._roles()
        if c.get("job_reducers") is not None:
            kw["job_reducers"] = tasks.reducers(c["job_reducers"])
        if c.get("result_reducers") is not None:
            kw["result_reducers"] = tasks.reducers(c["result_reducers"])
        # the machine's CPU count is an input of the reusable executor (its call queue has 2 * cpu_count() + 1 slots)
        esim.S.no_exitcode = bool(c.get("no_exitcode"))
        pe._USE_PSUTIL = bool(c.get("leak_after"))
        esim.S.leak_after = c.get("leak_after")
        global _REAL_CPU_COUNT
        if _REAL_CPU_COUNT is None:
            _REAL_CPU_COUNT = ru.cpu_count
        ru.cpu_count = (lambda n=c["cpus"]: n) if c.get("cpus") else _REAL_CPU_COUNT
        if c["kind"] == "plain":
            e = pe.ProcessPoolExecutor(max_workers=c["max_workers"], timeout=c.get("timeout"), context=esim.SimContext(), **kw)
        else:
            e = ru.get_reusable_executor(max_workers=c["max_workers"], timeout=c.get("timeout", 10), context=_ctx(), **kw)
        self._instrument(e)
        return e

    def submitters_done(self):
        return all(r["state"] == "done" for r in esim.S.recs.values() if r["role"].startswith("u"))

    # ---- user operations
    def do(self, u, op):
        S = esim.S
        k = op[0]
        e = self.holder.get("e")
        if k == "submit":
            _, tid, kind = op[:3]
            arg = op[3] if len(op) > 3 else None
            args = [tid, kind, arg]
            if kind == "unpicklable_arg":
                args = [tid, "ok", tasks.Unpicklable("arg %s" % tid)]
            elif kind in ("oserror_arg", "ebadf_arg", "epipe_arg"):
                args = [tid, "ok", tasks.UnpicklableOS("arg %s" % tid, {"oserror_arg": 2, "ebadf_arg": 9, "epipe_arg": 32}[kind])]
            elif kind == "partial_kw":
                args = [tid]
            elif kind == "unloadable_arg":
                args = [tid, "ok", tasks.Unloadable("arg %s" % tid)]
            elif kind == "too_large":
                args = [tid, "ok", TooLarge()]
            elif kind == "tagged":
                args = [tid, "tagged", tasks.Tagged(tid)]
            elif kind == "hugearg":
                args = [tid, "ok", "y" * 70000]          # larger than the pipe: the feeder blocks until a worker reads it
            elif kind == "probe":
                args = [tid, "ok", None]
            fn = tasks.body
            if kind == "partial_kw":          # a callable with bound keyword arguments
                fn = functools.partial(tasks.body_kw, salt=tid * 3 + 1, kind="ok")
            if kind == "wrapped" and u != "u1":
                kind, args = "ok", [tid, "ok", arg]          # one thread only mutates and sends the shared wrapped object
            if kind == "wrapped":
                # the same wrapper object is sent again and again; its state at submission time is part of the task
                # (arguments are pickled later, by the feeder thread: the object may only be changed once the tasks that
                # already carry it have been sent -- here: have completed)
                prior = list(getattr(self, "wrapped_futs", []))
                if prior:
                    S.step("user.wait_wrapped", pred=lambda: all(_BASE_FUTURE[0].done(x) for x in prior))
                w = tasks.wrapped()
                w._obj.k = tid
                fn, args = tasks.body_wrapped, [tid, w]
            try:
                f = e.submit(fn, *args)
            except BaseException as ex:
                self.rejected.add(tid)
                S.obs(ev="submit_rejected", u=u, t=tid, type=type(ex).__name__, mro=[c.__name__ for c in type(ex).__mro__])
                return
            self.futs[tid] = f
            if kind == "wrapped":
                self.__dict__.setdefault("wrapped_futs", []).append(f)
            # (the monitor judges by what the task does: variants of a kind are reported under the kind)
            S.obs(ev="submit", u=u, t=tid, kind={"ebadf_arg": "oserror_arg", "epipe_arg": "oserror_arg", "partial_kw": "ok"}.get(kind, kind), eid=id(e))
            f.add_done_callback(lambda fut, tid=tid: self._resolved(tid, fut))
        elif k == "cancel":
            if op[1] not in self.futs and op[1] not in self.rejected:
                S.step("user.wait_submitted(%s)" % op[1], pred=lambda: op[1] in self.futs or op[1] in self.rejected or self.submitters_done())
            f = self.futs.get(op[1])
            if f is not None:
                S.obs(ev="cancel_call", u=u, t=op[1])
                r = f.cancel()
                S.obs(ev="cancel", u=u, t=op[1], res=bool(r))
        elif k == "wait":
            f = self.futs.get(op[1])
            if f is not None:
                S.step("user.wait(%s)" % op[1], pred=f.done)
        elif k == "wait_all":
            S.step("user.wait_all", pred=lambda: all(f.done() for f in self.futs.values()))
        elif k == "shutdown":
            S.obs(ev="shutdown_call", u=u, wait=bool(op[1]), kill=bool(op[2]))
            try:
                e.shutdown(wait=op[1], kill_workers=op[2])
                S.obs(ev="shutdown_ret", u=u, wait=bool(op[1]), kill=bool(op[2]))
            except BaseException as ex:
                S.obs(ev="call_exc", u=u, call="shutdown", type=type(ex).__name__, what=str(ex)[:100])
        elif k == "del":
            S.obs(ev="del", u=u)
            self.holder.pop("e", None)
            e = None
            self.execs[:] = []
        elif k == "gc":
            S.step("user.gc")
        elif k == "exit":
            S.obs(ev="exit_call", u=u)
            try:
                pe._python_exit()
                S.obs(ev="exit_ret", u=u)
            except BaseException as ex:
                S.obs(ev="call_exc", u=u, call="exit", type=type(ex).__name__, what=str(ex)[:100])
        elif k == "reuse":
            kw = dict(op[2]) if len(op) > 2 else {}
            old = self.holder.get("e")
            if op[1] == "live":          # ask for exactly the number of workers currently registered
                op = [op[0], max(1, len(getattr(old, "_processes", {}) or {}))] + list(op[2:])
            old_id = getattr(old, "executor_id", None)
            before = list(getattr(old, "_processes", {}) or {}) if old is not None else []
            live_before = [pid for pid, p in S.procs.items() if not p._dead]
            S.obs(ev="reuse_call", u=u, n=op[1], kw=kw, old_broken=bool(old is not None and old._flags.broken),
                  old_shutdown=bool(old is not None and old._flags.shutdown))
            try:
                self._roles()
                kw = dict(kw)
                tmo = kw.pop("timeout", self.scn["exec"].get("timeout", 10))
                for rk in ("job_reducers", "result_reducers"):
                    if rk in kw:
                        kw[rk] = tasks.reducers(kw[rk])
                try:
                    ne = ru.get_reusable_executor(max_workers=op[1], timeout=tmo, context=self.scn.get("ctx") or _ctx(), **kw)
                finally:
                    if esim.LOCK_ROLE or esim.PIPE_ROLE:       # no new executor was built: forget the unused names
                        del esim.LOCK_ROLE[:], esim.TLOCK_ROLE[:], esim.PIPE_ROLE[:], esim.SEM_ROLE[:]
                        self.nexec -= 1
                self._instrument(ne)
                self.holder["e"] = ne
                after = list(ne._processes)
                S.obs(ev="reuse_ret", u=u, n=op[1], same=(ne is old), eid=ne.executor_id, old_eid=old_id,
                      nbefore=len(before), kept=len(set(before) & set(after)),
                      oldalive=len([pid for pid in live_before if not S.procs[pid]._dead]),
                      nproc=len(ne._processes), maxw=ne._max_workers, broken=bool(ne._flags.broken), shutdown=bool(ne._flags.shutdown))
            except BaseException as ex:
                S.obs(ev="call_exc", u=u, call="reuse", type=type(ex).__name__, what=str(ex)[:100])
        elif k in ("settle", "sat_probe"):
            myrec = S.rec()

            def quiet():
                if getattr(S, "_in_quiet", False):
                    return False
                S._in_quiet = True
                try:
                    return not [r for r in S.enabled() if r is not myrec]
                finally:
                    S._in_quiet = False
            S.step("user.settle", pred=quiet)
            S.obs(ev="settled", u=u)
            if k == "sat_probe":
                S.obs(ev="sat_probe", u=u, n=op[1])
        elif k == "timeouts_on":
            self.policy.no_idle = False
            S.obs(ev="timeouts_on", u=u)
        elif k == "wait_label":
            # (also returns once the watched thread has finished: it never got there)
            S.step("user.wait_label", pred=lambda: any(r["role"] == op[1] and ((r["label"] == op[2] and r["state"] == "ready") or r["state"] == "done")
                                                      for r in S.recs.values()))
        elif k == "wait_live":
            S.step("user.wait_live(%d)" % op[1], pred=lambda: len([1 for p in S.procs.values() if not p._dead]) <= op[1])
        elif k == "timeouts_off":
            # from now on idle timeouts do not expire any more (time stands still for them)
            self.policy.no_idle = True
            S.obs(ev="timeouts_off", u=u)
        elif k == "set_pickler":
            from loky.backend.reduction import set_loky_pickler
            set_loky_pickler(op[1])
            S.obs(ev="set_pickler", u=u, name=op[1])
        elif k == "release":
            tasks.RELEASED.add(op[1])
        elif k == "sleep":
            pe.sleep(op[1])
        elif k == "map":
            _, mid, lens, chunksize = op
            its = [list(range(i * 100 + 1, i * 100 + n + 1)) for i, n in enumerate(lens, 1)]
            want = [tasks.fold.__wrapped__(*a) for a in zip(*its)]
            futs = []
            orig = e.submit

            def rec_submit(*a, **kw):
                f = orig(*a, **kw)
                futs.append(f)
                return f
            try:
                e.submit = rec_submit
                try:
                    it = e.map(tasks.fold, *its, chunksize=chunksize)
                finally:
                    del e.submit
                S.step("user.wait_map(%s)" % mid, pred=lambda: all(f.done() for f in futs))
                got = list(it)
                S.obs(ev="map_result", u=u, t=mid, good=(got == want), n=len(got), value=repr(got)[:80])
            except BaseException as ex:
                S.obs(ev="call_exc", u=u, call="map", type=type(ex).__name__, what=str(ex)[:100])
        elif k == "callback_submit":
            # register on future op[1] a done-callback that submits task op[2] (runs in the manager thread)
            f = self.futs.get(op[1])
            if f is not None:
                f.add_done_callback(lambda fut, t=op[2]: self.do("cb", ["submit", t, "ok"]))
        elif k == "callback_slow":
            # register on future op[1] a done-callback that takes op[2] seconds (it runs in the manager thread, which is
            # unavailable meanwhile)
            f = self.futs.get(op[1])
            if f is not None:
                f.add_done_callback(lambda fut, d=op[2]: pe.sleep(d))
        else:
            raise AssertionError("unknown op %r" % (op,))

    def _resolved(self, tid, fut):
        # observation only: reads the future through the base class (the instrumented reads are scheduling points, and a
        # low-priority thread parked there would log the resolution long after it happened)
        S = esim.S
        if _BASE_FUTURE[0].cancelled(fut):
            S.obs(ev="resolve", t=tid, outcome="cancelled", by=esim.me())
            return
        ex = fut.exception()
        if ex is None:
            v = fut.result()
            if isinstance(v, list) and v[:1] == ["tagged"]:
                v = ["tagged", v[1], v[2], tasks.seen_as(v[3])]
            S.obs(ev="resolve", t=tid, outcome="result", good=(v == tasks.value_of(tid) or (isinstance(v, list) and v[:2] in (["value", tid], ["pid", tid], ["pickler", tid], ["tagged", tid]))
                                                            or v == ["wrapped", tid, tid] or v == ["kw", tid, tid * 3 + 1]),
                  value=repr(v)[:60], by=esim.me())
        else:
            cause = getattr(ex, "__cause__", None)
            S.obs(ev="resolve", t=tid, outcome="exception", type=type(ex).__name__, mro=[c.__name__ for c in type(ex).__mro__],
                  args=repr(getattr(ex, "args", ()))[:80], cause=type(cause).__name__ if cause is not None else None, by=esim.me())


_CTX = [None]
_REAL_CPU_COUNT = None


def _ctx():
    if _CTX[0] is None:
        _CTX[0] = esim.SimContext()
    return _CTX[0]


# ------------------------------------------------------------------------------------------------------------
# policies: decide who moves next.  A policy is a callable(sched, enabled, timed_blocked) -> (rec, outcome) | None
class Policy:
    def __init__(self, spec, seed):
        self.spec = spec
        self.rng = random.Random(seed)
        self.kind = spec.get("kind", "random")
        self.tp = spec.get("tp", 0.0)            # probability of firing a short timeout when one is possible
        self.pcrash = spec.get("pcrash", 0.0)
        self.crash_code = spec.get("crash_code", -11)        # exit status of a worker killed by the environment (-n = signal n)
        self.max_crash = spec.get("max_crash", 0)
        self.crash_at = list(spec.get("crash_at", []))    # [{"label": "...", "role": "W", "nth": 1}]
        self.prio = {}
        self.low = spec.get("low", [])
        self.order = spec.get("order")
        self.change = spec.get("change", 0.05)
        self.hits = {}
        self.ncrash = 0
        self.no_idle = False

    def priority(self, r):
        p = self.prio.get(r["name"])
        if p is None:
            p = self.rng.random()
            if self.order:
                role = "W" if r["role"].startswith("W") else r["role"].rstrip("0123456789")
                idx = self.order.index(role) if role in self.order else len(self.order)
                p = 10.0 - idx + 0.5 * self.rng.random()
            if any(r["role"].startswith(x) for x in self.low):
                p -= 1.0
            self.prio[r["name"]] = p
        return p

    def env(self, S):
        """environment actions applied between steps; returns True if something happened"""
        # targeted crash: a worker parked at a given label (n-th time it gets there)
        for c in list(self.crash_at):
            for r in S.ready():
                if r["proc"] == "parent" or not r["role"].startswith("W"):
                    continue
                lab = r["label"]
                if c["label"] == "exitlock" and lab.startswith("exitlock"):
                    lab = "exitlock"
                if lab == c["label"]:
                    if "announcing" in c and lab.startswith("rq.") and c["announcing"] == ("task.run" in r.get("since_get", [])):
                        continue
                    key = (r["name"], c["label"], r["nops"])
                    if key in self.hits:
                        continue
                    self.hits[key] = True
                    c["seen"] = c.get("seen", 0) + 1
                    if c["seen"] == c.get("nth", 1):
                        esim.crash(r["proc"], c.get("code", -11))
                        S.decisions.append(("ENV", "crash %s at %s" % (r["name"], c["label"]), "ok"))
                        self.crash_at.remove(c)
                        self.ncrash += 1
                        return True
        if self.pcrash and self.ncrash < self.max_crash and self.rng.random() < self.pcrash:
            ws = sorted((r for r in S.ready() if r["proc"] != "parent" and r["role"].startswith("W")), key=lambda r: r["name"])
            if ws:
                r = self.rng.choice(ws)
                esim.crash(r["proc"], self.crash_code)
                S.decisions.append(("ENV", "crash %s at %s" % (r["name"], r["label"]), "ok"))
                self.ncrash += 1
                return True
        return False

    def pick(self, S, en, tb):
        short = [r for r in tb if r["timed"] is not None and r["timed"] < 5.0 and not self.no_idle]
        if short and (not en or self.rng.random() < self.tp):
            return self.rng.choice(sorted(short, key=lambda r: r["name"])), "timeout"
        if not en:
            return None
        en = sorted(en, key=lambda r: r["name"])
        if self.kind == "random":
            return self.rng.choice(en), "ok"
        # priority / PCT-like: highest priority runs; priorities change at random points
        if self.rng.random() < self.change:
            r = self.rng.choice(en)
            self.prio[r["name"]] = self.rng.random() - (1.0 if self.rng.random() < 0.5 else 0.0)
        return max(en, key=self.priority), "ok"


def run_case(case):
    """case = {"scn": {...}, "policy": {...}, "seed": int}"""
    setup()
    S = esim.new_sched(pe, ru)
    _CTX[0] = None
    tasks.RELEASED.clear()
    tasks.INIT.clear()
    pe.Future = make_future_class()
    scn = case["scn"]
    warnings.resetwarnings()
    warnings.simplefilter("ignore")
    if scn["exec"].get("strict_resize"):
        # scenario input: the user turned this one warning into an error (as -W error::UserWarning or pytest's filterwarnings do)
        warnings.filterwarnings("error", message="Trying to resize an executor with running jobs")
    if scn["exec"].get("strict_warnings"):
        # scenario input: -W error::UserWarning
        warnings.filterwarnings("error", category=UserWarning)
    sc = Scenario(scn)
    pol = Policy(case.get("policy", {}), case.get("seed", 0))
    sc.policy = pol
    budget = case.get("budget", 6000)
    res = dict(i=case.get("i"))
    try:
        # the executor is created by the first user thread before anything else runs
        def mk_user(u, ops):
            def f():
                for op in ops:
                    sc.do(u, op)
                S.obs(ev="user_done", u=u)
            return f

        def creator():
            sc.holder["e"] = sc.make_exec()
        th = threading.Thread(target=creator, name="creator", daemon=True)
        S.spawn(th, "creator", "parent", fn=creator)
        _run(S, pol, budget, only="creator")
        for u, ops in scn["users"].items():
            th = threading.Thread(name=u, daemon=True)
            S.spawn(th, u, "parent", fn=mk_user(u, ops))
        end = _run(S, pol, budget, sc=sc)
        if end == "budget":
            # the chosen (possibly unfair) schedule did not settle: continue under a fair uniform schedule in which time
            # passes only when nothing else can move; only if that does not settle either is the run reported as diverging
            fair = Policy(dict(kind="random", tp=0.0), case.get("seed", 0) + 1)
            end = _run(S, fair, S.nsteps + case.get("fair_budget", 12000), sc=sc)
            res["fair_continuation"] = True
            if end == "budget":
                end = "diverges"
        res.update(_end_state(S, sc, end))
    except BaseException as ex:
        res["harness_error"] = "%s: %s\n%s" % (type(ex).__name__, ex, traceback.format_exc()[-1500:])
    res["trace"] = list(S.trace)
    res["decisions"] = S.decisions if case.get("keep_decisions", True) else len(S.decisions)
    res["nsteps"] = S.nsteps
    _teardown(S)
    sc = None
    return res


def _run(S, pol, budget, only=None, sc=None):
    """controller loop. Returns 'quiescent' | 'livelock' | 'budget'."""
    sleep_run = 0
    while S.nsteps < budget:
        if only is not None and S.recs[only]["state"] == "done":
            return "done"
        if pol.env(S):
            continue
        en = S.enabled()
        tb = S.blocked_timed()
        nonsleep = [r for r in en if r["label"] != "sleep" and not r["label"].startswith("is_alive")]
        if not nonsleep and en:
            sleep_run += 1
        else:
            sleep_run = 0
        if sleep_run > 400 or (not en):
            # nothing but polling loops (or nothing at all) can move: let time pass -> timers fire, short ones first
            if pol.no_idle:
                tb = [r for r in tb if r["timed"] >= 5.0]
            if tb:
                short = [r for r in tb if r["timed"] < 5.0]
                cand = sorted(short or tb, key=lambda r: (r["timed"], r["name"]))
                dur = cand[0]["timed"]
                S.run_one(cand[0], "timeout")
                S.now += dur
                sleep_run = 0
                continue
            if not en:
                return "quiescent"
            return "livelock"
        ch = pol.pick(S, en, tb)
        if ch is None:
            continue
        S.run_one(ch[0], ch[1])
        if sc is not None:
            for e in sc.execs:
                try:
                    n = len(e._processes)
                except Exception:
                    continue
                if n > sc.maxreg.get(id(e), 0):
                    sc.maxreg[id(e)] = n
                    S.obs(ev="reg", n=n)
            e = None      # never keep the executor alive from the controller's frame
    return "budget"


def _end_state(S, sc, end):
    blocked = []
    for r in S.recs.values():
        if r["state"] in ("ready",):
            blocked.append(dict(name=r["name"], role=r["role"], proc=str(r["proc"]), label=r["label"]))
    died = [dict(name=r["name"], role=r["role"], exc=r["exc"]) for r in S.recs.values() if r.get("exc")]
    pending = sorted(t for t, f in sc.futs.items() if not f.done())
    procs = {str(pid): dict(dead=p._dead, how=p.how, code=p._exitcode, reaped=p._reaped) for pid, p in S.procs.items()}
    ex = []
    for e in sc.execs:
        try:
            ex.append(dict(broken=type(e._flags.broken).__name__ if e._flags.broken else None, shutdown=bool(e._flags.shutdown),
                           nproc=len(e._processes), maxw=e._max_workers, npending=len(e._pending_work_items)))
        except Exception as exn:
            ex.append(dict(error=str(exn)))
    S.obs(ev="end", how=end, blocked=[b["role"] for b in blocked if b["proc"] == "parent"],
          blocked_users=[b["name"] for b in blocked if b["proc"] == "parent" and b["role"] not in ("mgr", "feeder")],
          pending=pending, died=[d["role"] for d in died],
          live_procs=sorted(pid for pid, p in procs.items() if not p["dead"]),
          unreaped=sorted(pid for pid, p in procs.items() if p["dead"] and not p["reaped"]))
    return dict(end=end, blocked=blocked, died=died, pending=pending, procs=procs, execs=ex)


def _teardown(S):
    S.poison = True
    for r in list(S.recs.values()):
        n = 0
        while r["state"] in ("ready", "dead") and n < 50:
            n += 1
            r["state"] = "ready"
            r["res"] = "kill"
            S._give(r)
            with S.cv:
                S.cv.wait_for(lambda: S.cur == "ctl", timeout=1.0)
            S.cur = "ctl"


def main():
    inp, outp = sys.argv[1], sys.argv[2]
    real_out = sys.stdout
    devnull = open(os.devnull, "w")
    sys.stdout = devnull
    sys.stderr = devnull
    with open(outp, "w") as out:
        for line in open(inp):
            case = json.loads(line)
            r = run_case(case)
            out.write(json.dumps(r, default=repr) + "\n")
            out.flush()
    os._exit(0)


if __name__ == "__main__":
    main()
