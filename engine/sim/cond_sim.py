"""E-SIM (light) for C14: the REAL loky.backend.synchronize.Condition / Event methods running on instrumented
semaphores (installed through the classes' own __setstate__ / attributes), one thread per caller, under a baton
scheduler: exactly one thread runs at a time and every semaphore operation is a scheduling point.

Used in two directions:
  * replay(behaviour): follow a TLC behaviour of Condition.tla operation by operation, comparing the projected state
    (lock owner, three counters) after every step; at the end (or at the first divergence = drift) the execution is
    continued fairly to quiescence, an epilogue re-uses the object, and the observation trace is returned;
  * explore(seed): seeded random / priority schedules, same epilogue, observation trace returned.
Verdicts are taken from the observation traces by the TLA+ monitor specs/Mon_C14.tla, not here.
"""
import threading, random, sys, os, json

import loky.backend.synchronize as LS


class Drift(Exception):
    pass


class Sched:
    def __init__(self):
        self.cv = threading.Condition()
        self.cur = "ctl"
        self.th = {}            # name -> dict(label, pred, timed, state, res)
        self.trace = []         # observation events
        self.ops = []           # op-level log

    # --- called by simulated threads
    def me(self):
        return threading.current_thread().name

    def step(self, label, pred=None, timed=False):
        n = self.me()
        r = self.th[n]
        r.update(label=label, pred=pred, timed=timed, state="ready", res=None)
        self._give("ctl")
        self._wait_turn(n)
        r["state"] = "run"
        return r["res"]

    def finish(self, n):
        self.th[n]["state"] = "done"
        self.th[n]["label"] = "done"
        self._give("ctl")

    def _give(self, who):
        with self.cv:
            self.cur = who
            self.cv.notify_all()

    def _wait_turn(self, n):
        with self.cv:
            while self.cur != n:
                self.cv.wait()

    # --- controller side
    def spawn(self, name, fn):
        self.th[name] = dict(label="start", pred=None, timed=False, state="ready", res=None)

        def body():
            self._wait_turn(name)
            try:
                fn()
            finally:
                self.finish(name)
        t = threading.Thread(target=body, name=name, daemon=True)
        t.start()

    def run(self, name, outcome="ok"):
        """let `name` perform its pending operation with `outcome` and run to its next scheduling point"""
        r = self.th[name]
        r["res"] = outcome
        self._give(name)
        self._wait_turn("ctl")

    def pending(self, name):
        return self.th[name]["label"]

    def enabled(self):
        out = []
        for n, r in self.th.items():
            if r["state"] != "ready":
                continue
            if r["pred"] is None or r["pred"]():
                out.append(n)
        return out

    def timed_blocked(self):
        return [n for n, r in self.th.items() if r["state"] == "ready" and r["pred"] is not None and not r["pred"]() and r["timed"]]

    def all_done(self):
        return all(r["state"] == "done" for r in self.th.values())


S = None


class _SL:
    def __init__(s, o):
        s.o = o

    def _is_mine(s):
        return s.o.owner == S.me()

    def _count(s):
        return s.o.count if s.o.owner == S.me() else 0

    def _get_value(s):
        return s.o.v


class FakeSem:
    """counting semaphore / (recursive) lock with the interface Condition and Event use"""

    def __init__(s, name, v=0, lock=False, recursive=False):
        s.name, s.v, s.lock, s.recursive, s.owner, s.count = name, v, lock, recursive, None, 0
        s._semlock = _SL(s)

    def acquire(s, block=True, timeout=None):
        me = S.me()
        if s.recursive and s.owner == me:
            s.count += 1
            return True
        if not block:
            S.step("%s.try" % s.name)
            ok = s.v > 0
            if ok:
                s._take(me)
            S.ops.append((me, s.name + ".try", "ok" if ok else "fail"))
            if s.name == "wait" and ok and me.startswith("w"):
                S.trace.append(dict(ev="granted", t=me))
            return ok
        if s.name == "wait":
            S.trace.append(dict(ev="asleep", t=me, timed=timeout is not None))
        r = S.step("%s.acq" % s.name, pred=lambda: s.v > 0, timed=timeout is not None)
        if r == "timeout":
            S.ops.append((me, s.name + ".acq", "timeout"))
            if s.name == "wait":
                S.trace.append(dict(ev="timedout", t=me))
            return False
        if s.v <= 0:
            raise Drift("%s performed %s.acq while the semaphore is 0" % (me, s.name))
        s._take(me)
        S.ops.append((me, s.name + ".acq", "ok"))
        if s.name == "wait":
            S.trace.append(dict(ev="granted", t=me))
        return True

    def _take(s, me):
        s.v -= 1
        if s.lock:
            s.owner, s.count = me, 1
            m = S.th.get(me, {}).get("method")
            if m:
                S.trace.append(dict(ev="lockacq", t=me, kind=m))

    def release(s):
        me = S.me()
        if s.recursive and s.owner == me and s.count > 1:
            s.count -= 1
            return
        S.step("%s.rel" % s.name)
        if s.lock and s.v >= 1:
            raise ValueError("semaphore or lock released too many times")
        s.v += 1
        if s.lock:
            s.owner, s.count = None, 0
        S.ops.append((me, s.name + ".rel", "ok"))

    def __enter__(s):
        return s.acquire()

    def __exit__(s, *a):
        s.release()


def make_condition(recursive=True):
    lock = FakeSem("lock", 1, lock=True, recursive=recursive)
    sleeping, woken, wait = FakeSem("sleeping"), FakeSem("woken"), FakeSem("wait")
    c = LS.Condition.__new__(LS.Condition)
    c.__setstate__((lock, sleeping, woken, wait))      # exactly the pickled state of a Condition
    return c, dict(lock=lock, sleeping=sleeping, woken=woken, wait=wait)


def make_event():
    c, sems = make_condition(recursive=False)           # Event uses Condition(Lock())
    e = LS.Event.__new__(LS.Event)
    e._cond = c
    e._flag = FakeSem("flag")
    sems["flag"] = e._flag
    return e, sems


# ---- thread bodies (the only non-loky code that runs inside the simulated threads)
def waiter_body(cond, sems, name, timeout, reps):
    def f():
        for i in range(reps):
            try:
                with cond:
                    r = cond.wait(timeout)
                    S.trace.append(dict(ev="wait_end", t=name, res=bool(r), holds=sems["lock"].owner == name))
            except AssertionError as ex:
                S.trace.append(dict(ev="exc", t=name, type="AssertionError", what=str(ex)[:80]))
                return
            except Drift:
                raise
            except BaseException as ex:
                S.trace.append(dict(ev="exc", t=name, type=type(ex).__name__, what=str(ex)[:80]))
                return
    return f


def notifier_body(cond, sems, name, kind, reps):
    def f():
        for i in range(reps):
            try:
                with cond:
                    S.trace.append(dict(ev="notify_begin", t=name, kind=kind))
                    getattr(cond, kind)()
                    S.trace.append(dict(ev="notify_end", t=name, kind=kind))
            except AssertionError as ex:
                S.trace.append(dict(ev="exc", t=name, type="AssertionError", what=str(ex)[:80]))
                if sems["lock"].owner == name:
                    pass
                return
            except BaseException as ex:
                S.trace.append(dict(ev="exc", t=name, type=type(ex).__name__, what=str(ex)[:80]))
                return
    return f


def proj(sems):
    return dict(lock=sems["lock"].owner or "free", sleeping=sems["sleeping"].v, woken=sems["woken"].v, waitsem=sems["wait"].v)


def norm(op):
    return op.rstrip("0123456789")


def quiesce(rng=None, fire_timeouts=True, budget=5000):
    """fair continuation: run enabled threads (random order if rng) until nothing is enabled; fire timeouts of timed
    waiters only when nothing else can move (long timers at quiescence)"""
    n = 0
    while n < budget:
        en = S.enabled()
        if en:
            t = rng.choice(sorted(en)) if rng else sorted(en)[n % len(en)]
            S.run(t, "ok")
        else:
            tb = S.timed_blocked() if fire_timeouts else []
            if not tb:
                return True
            S.run(sorted(tb)[0], "timeout")
        n += 1
    return False


def epilogue(cond, sems, rng=None):
    """re-use the object after the burst: (1) notify_all must release every waiter still asleep, (2) a wait(timeout)
    with no notifier must time out, (3) a notify() with nobody asleep must be a no-op that does not assert."""
    S.trace.append(dict(ev="epilogue"))
    S.spawn("nE1", notifier_body(cond, sems, "nE1", "notify_all", 1))
    ok = quiesce(rng)
    S.spawn("wE", waiter_body(cond, sems, "wE", 0.01, 1))
    ok = quiesce(rng) and ok
    S.spawn("nE2", notifier_body(cond, sems, "nE2", "notify", 1))
    ok = quiesce(rng) and ok
    blocked = sorted(n for n, r in S.th.items() if r["state"] != "done")
    S.trace.append(dict(ev="end", blocked=blocked, budget_ok=ok))


def setup(cfg):
    global S
    S = Sched()
    cond, sems = make_condition(recursive=True)
    for w in cfg["waiters"]:
        S.spawn(w, waiter_body(cond, sems, w, 5.0 if w in cfg["timed"] else None, cfg["reps"]))
    for n, kind in cfg["notifiers"].items():
        S.spawn(n, notifier_body(cond, sems, n, kind, cfg["reps"]))
    # every thread runs to its first scheduling point
    for t in list(S.th):
        S.run(t, "ok")
    return cond, sems


def replay(cfg, steps, states):
    """steps: [(thread, op, outcome)], states: projected spec state after each step. Returns dict(trace, drift, matched)"""
    cond, sems = setup(cfg)
    drift = None
    matched = 0
    try:
        for (t, op, outcome), st in zip(steps, states):
            pend = S.pending(t)
            if norm(pend) != norm(op):
                drift = "step %d: %s is about to do %r, the specification expects %r" % (matched + 1, t, pend, op)
                break
            r = S.th[t]
            if outcome == "timeout":
                S.run(t, "timeout")
            else:
                if r["pred"] is not None and not r["pred"]():
                    drift = "step %d: %s cannot perform %s (blocked) but the specification performs it" % (matched + 1, t, op)
                    break
                S.run(t, "ok")
                if op.split(".")[1].startswith("try"):
                    got = S.ops[-1][2] if S.ops and S.ops[-1][0] == t else None
                    if got != outcome:
                        drift = "step %d: %s %s gave %r, the specification says %r" % (matched + 1, t, op, got, outcome)
                        break
            p = proj(sems)
            if any(p[k] != st[k] for k in p):
                drift = "step %d: after %s %s the state is %s, the specification says %s" % (matched + 1, t, op, p, st)
                break
            matched += 1
        quiesce(None)
        epilogue(cond, sems)
    except Drift as ex:
        drift = drift or str(ex)
        S.trace.append(dict(ev="end", blocked=["?"], budget_ok=False))
    return dict(trace=S.trace, drift=drift, matched=matched, final=proj(sems))


def explore(cfg, seed):
    rng = random.Random(seed)
    cond, sems = setup(cfg)
    tp = rng.choice([0.0, 0.05, 0.2, 0.5])
    prio = {t: rng.random() for t in S.th}
    mode = rng.choice(["uniform", "prio", "prio"])
    n = 0
    sched = []
    try:
        while n < 3000:
            en = S.enabled()
            tb = S.timed_blocked()
            if tb and (not en or rng.random() < tp):
                t = rng.choice(sorted(tb))
                S.run(t, "timeout")
                sched.append((t, "timeout"))
            elif en:
                if mode == "prio":
                    if rng.random() < 0.1:
                        prio[rng.choice(sorted(prio))] = rng.random()
                    t = max(sorted(en), key=lambda x: prio[x])
                else:
                    t = rng.choice(sorted(en))
                S.run(t, "ok")
                sched.append((t, "ok"))
            else:
                break
            n += 1
        epilogue(cond, sems, rng)
    except Drift as ex:
        S.trace.append(dict(ev="drift", what=str(ex)))
        S.trace.append(dict(ev="end", blocked=["?"], budget_ok=False))
    return dict(trace=S.trace, sched=sched, final=proj(sems))


# ---- Event -----------------------------------------------------------------------------------------------
def event_body(ev, name, calls):
    """calls: list of [method, timeout-or-None]"""
    def f():
        for m, tmo in calls:
            S.th[name]["method"] = m
            try:
                if m == "wait":
                    r = ev.wait(tmo)
                else:
                    r = getattr(ev, m)()
                S.trace.append(dict(ev="ret", t=name, kind=m, res=bool(r)))
                S.ops.append((name, "ret", "True" if (r and m in ("wait", "is_set")) else "False"))
            except BaseException as ex:
                S.trace.append(dict(ev="exc", t=name, type=type(ex).__name__, what=str(ex)[:80]))
                return
            finally:
                S.th[name]["method"] = None
    return f


def explore_event(cfg, seed):
    """cfg: {"threads": {name: [[method, timeout], ...]}}"""
    global S
    S = Sched()
    rng = random.Random(seed)
    ev, sems = make_event()
    for n, calls in cfg["threads"].items():
        S.spawn(n, event_body(ev, n, calls))
    for t in list(S.th):
        S.run(t, "ok")
    tp = rng.choice([0.0, 0.05, 0.3])
    prio = {t: rng.random() for t in S.th}
    mode = rng.choice(["uniform", "prio"])
    sched = []
    n = 0
    try:
        while n < 3000:
            en, tb = S.enabled(), S.timed_blocked()
            if tb and (not en or rng.random() < tp):
                t = rng.choice(sorted(tb)); S.run(t, "timeout"); sched.append((t, "timeout"))
            elif en:
                if mode == "prio":
                    if rng.random() < 0.1:
                        prio[rng.choice(sorted(prio))] = rng.random()
                    t = max(sorted(en), key=lambda x: prio[x])
                else:
                    t = rng.choice(sorted(en))
                S.run(t, "ok"); sched.append((t, "ok"))
            else:
                break
            n += 1
        # epilogue: set() must release every waiter; then wait() returns True at once, is_set() is True;
        # clear(); wait(timeout) must return False
        S.trace.append(dict(ev="epilogue"))
        S.spawn("E1", event_body(ev, "E1", [["set", None], ["wait", None], ["is_set", None], ["clear", None], ["wait", 0.01], ["is_set", None]]))
        ok = quiesce(rng)
        blocked = sorted(n for n, r in S.th.items() if r["state"] != "done")
        S.trace.append(dict(ev="end", blocked=blocked, budget_ok=ok))
    except Drift as ex:
        S.trace.append(dict(ev="drift", what=str(ex)))
        S.trace.append(dict(ev="end", blocked=["?"], budget_ok=False))
    return dict(trace=S.trace, sched=sched, final={k: v.v for k, v in sems.items()}, ops=[list(o) for o in S.ops],
                epilogue=[["set", None], ["wait", None], ["is_set", None], ["clear", None], ["wait", 0.01], ["is_set", None]])


# ---------------------------------------------------------------------------------------------------------
def main():
    mode, inp, outp = sys.argv[1], sys.argv[2], sys.argv[3]
    out = []
    with open(inp) as fh:
        for line in fh:
            c = json.loads(line)
            if mode == "replay":
                r = replay(c["cfg"], [tuple(x) for x in c["steps"]], c["states"])
            elif mode == "event":
                r = explore_event(c["cfg"], c["seed"])
            else:
                r = explore(c["cfg"], c["seed"])
            r["i"] = c["i"]
            out.append(r)
    json.dump(out, open(outp, "w"))
    sys.stdout.flush()
    os._exit(0)


if __name__ == "__main__":
    main()
