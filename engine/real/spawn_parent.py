"""E-REAL parent for C18: executes TLC-emitted configurations of Spawn.tla with real loky processes.
The statement below runs at import time WITHOUT a __main__ guard: it counts how often this script is executed."""
import os, sys
_counter = os.environ.get("VERIF_MAIN_COUNTER")
if _counter:
    with open(_counter, "a") as _fh:
        _fh.write("run %d\n" % os.getpid())

if __name__ == "__main__":
    import json, signal, multiprocessing as mp
    from multiprocessing.connection import wait
    signal.alarm(7000)
    inp, outp, scratch = sys.argv[1], sys.argv[2], sys.argv[3]
    from loky.backend.process import LokyProcess, LokyInitMainProcess
    from engine.real.spawn_child import report
    os.environ["A"], os.environ["B"] = "pa", "pb"
    os.environ.pop("C", None)
    out = []
    n = 0
    for line in open(inp):
        v = json.loads(line)
        n += 1
        _, fds, ov, end, method, exp_env, exp_code, exp_runs = v[:8]
        opened = []
        why = None
        try:
            for slot, st in fds.items():
                if st == "absent":
                    continue
                path = os.path.join(scratch, "m%s" % slot)
                try:
                    os.fstat(int(slot))
                    raise RuntimeError("descriptor %s is already in use in the parent" % slot)
                except OSError:
                    pass
                fd0 = os.open(path, os.O_CREAT | os.O_RDWR)
                os.dup2(fd0, int(slot), inheritable=(st == "inh"))
                os.close(fd0)
                os.set_inheritable(int(slot), st == "inh")
                opened.append(int(slot))
            overlay = {k: ("ov" if s == "set" else "") for k, s in ov.items() if s != "absent"}
            pr, cw = mp.Pipe()
            runs_before = len(open(_counter).read().splitlines())
            cls = LokyInitMainProcess if method == "loky_init_main" else LokyProcess
            kw = {} if method == "loky_init_main" else {"env": overlay}
            if method == "loky_init_main":
                # LokyInitMainProcess takes no env=: apply the overlay through the attribute the launcher reads
                p = cls(target=report, args=(cw, scratch, sorted(exp_env), end))
                p.env = overlay
            else:
                p = cls(target=report, args=(cw, scratch, sorted(exp_env), end), env=overlay)
            p.start()
            cw.close()
            if not pr.poll(60):
                why = "the child never reported"
            else:
                rep = pr.recv()
                if rep["seen"]:
                    why = "the child inherited descriptors of the parent: %s (parent had %s)" % (rep["seen"], fds)
                elif rep["env"] != exp_env:
                    why = "the child's environment is %s, the property requires %s (overlay %s)" % (rep["env"], exp_env, ov)
                elif wait([p.sentinel], 0):
                    why = "the sentinel is ready while the child is still alive"
                pr.send("go")
                p.join(60)
                if why is None:
                    if p.exitcode != exp_code:
                        why = "exitcode is %r after %s, the property requires %d" % (p.exitcode, end, exp_code)
                    elif not wait([p.sentinel], 0):
                        why = "the sentinel is not ready although the child is gone"
                    else:
                        runs = len(open(_counter).read().splitlines()) - runs_before + 1
                        if runs != exp_runs:
                            why = "the parent's __main__ script was executed %d time(s) for start method %s, expected %d" % (runs, method, exp_runs)
            pr.close()
        except BaseException as ex:
            why = "harness: %s: %s" % (type(ex).__name__, ex)
        finally:
            for fd in opened:
                try:
                    os.close(fd)
                except OSError:
                    pass
        if why:
            out.append(dict(vector=v, why=why))
    json.dump(dict(n=n, out=out), open(outp, "w"))
    sys.stdout.flush()
    os._exit(0)
