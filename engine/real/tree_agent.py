"""E-REAL agent for C12/C13: one instance runs in every process of a real loky process tree and obeys commands dropped in
a mailbox directory (files survive the death of any process, unlike pipes through the parent).
root:  python -m engine.real.tree_agent <scratch> r        children: LokyProcess(target=agent_main, args=(name, scratch))"""
import os, sys, json, time, gc, signal
import warnings as _w
_w.simplefilter("ignore")

# configuration "imp" of TrackerTree.tla: the main module performs a tracked operation when it is imported -- in the root,
# and again in every child started with the loky_init_main method (which re-imports the parent's main module)
_IMPORT = None
if os.environ.get("VERIF_TREE_IMPORT") == "1" and __name__ in ("__main__", "__mp_main__"):
    import loky.backend.resource_tracker as _rt0
    import loky.backend.synchronize as _LS0
    _import_lock = _LS0.Lock()
    _IMPORT = dict(tracker=_rt0._resource_tracker._pid, semname=_import_lock._semlock.name)


def _main_mod():
    return sys.modules.get("__mp_main__") or sys.modules["__main__"]


def _reply(scratch, name, n, obj):
    tmp = os.path.join(scratch, "%s.rep.%d.tmp" % (name, n))
    with open(tmp, "w") as fh:
        json.dump(obj, fh)
    os.rename(tmp, os.path.join(scratch, "%s.rep.%d" % (name, n)))


def agent_main(name, scratch):
    import loky.backend.resource_tracker as rt
    from loky.backend.process import LokyProcess, LokyInitMainProcess
    import loky.backend.synchronize as LS
    import multiprocessing.util as mu
    import warnings
    warnings.simplefilter("ignore")
    kids, objs = {}, {}
    n = 0
    deadline = time.time() + 240
    while time.time() < deadline:
        path = os.path.join(scratch, "%s.cmd.%d" % (name, n + 1))
        if not os.path.exists(path):
            time.sleep(0.01)
            continue
        n += 1
        cmd = json.load(open(path))
        op = cmd["op"]
        try:
            if op == "spawn":
                P = LokyInitMainProcess if cmd.get("method") == "loky_init_main" else LokyProcess
                p = P(target=agent_main, args=(cmd["child"], scratch))
                p.start()
                kids[cmd["child"]] = p
                _reply(scratch, name, n, dict(ok=True, pid=p.pid, tracker=rt._resource_tracker._pid))
            elif op == "tracker":
                _reply(scratch, name, n, dict(ok=True, tracker=rt._resource_tracker._pid, pid=os.getpid(),
                                              imp=getattr(_main_mod(), "_IMPORT", None)))
            elif op == "track_file":
                open(cmd["path"], "w").close()
                rt.register(cmd["path"], "file")
                _reply(scratch, name, n, dict(ok=True, tracker=rt._resource_tracker._pid))
            elif op == "track_sem":
                o = LS.Semaphore(1)
                objs[cmd["id"]] = o
                semname = o._semlock.name
                o = None          # the only reference is the one in objs
                _reply(scratch, name, n, dict(ok=True, tracker=rt._resource_tracker._pid, semname=semname))
            elif op == "collect":
                if cmd["id"] == "imp":
                    m = _main_mod()
                    m._import_lock = None
                    # (loky_init_main copies the globals of the re-imported module: the functions defined by the import
                    # still see the original dictionary)
                    f = getattr(m, "_main_mod", None)
                    if f is not None:
                        f.__globals__["_import_lock"] = None
                else:
                    objs.pop(cmd["id"], None)
                gc.collect()
                _reply(scratch, name, n, dict(ok=True))
            elif op == "die":
                _reply(scratch, name, n, dict(ok=True))
                if cmd["how"] == "kill":
                    os.kill(os.getpid(), signal.SIGKILL)
                    time.sleep(10)
                # normal end of a process: finalizers run (named semaphores are unlinked), children are not waited for
                mu._run_finalizers(0)
                mu._run_finalizers()
                os._exit(0)
            else:
                _reply(scratch, name, n, dict(ok=False, err="unknown op"))
        except BaseException as ex:
            _reply(scratch, name, n, dict(ok=False, err="%s: %s" % (type(ex).__name__, ex)))
    os._exit(0)


if __name__ == "__main__":
    agent_main(sys.argv[2], sys.argv[1])
