"""E-REAL for C19: real nested executors. usage: LOKY_MAX_DEPTH=n python -m engine.real.nesting_real <out.json>"""
import sys, os, json


def nest(level):
    import loky.process_executor as pe
    from loky import ProcessPoolExecutor
    here = [level, pe._CURRENT_DEPTH, os.getpid()]
    try:
        e = ProcessPoolExecutor(max_workers=1, timeout=20)
    except pe.LokyRecursionError:
        return [here + ["refused"]]
    try:
        r = e.submit(nest, level + 1).result(timeout=120)
    finally:
        e.shutdown(wait=True, kill_workers=True)
    return [here + ["ok"]] + r


if __name__ == "__main__":
    import signal
    signal.alarm(200)
    res = nest(0)
    json.dump(res, open(sys.argv[1], "w"))
    sys.stdout.flush()
    os._exit(0)
