"""E-REAL for C20: execute a history of executor lifecycles once, then N more times, with REAL executors, and compare the
parent's resource counts (open descriptors, live threads, child processes incl. zombies, named semaphores of this pid).
usage: python -m engine.real.lifecycle_real <histories.jsonl> <out.json>   (one fresh interpreter per history is started
by this driver: python -m engine.real.lifecycle_real --one '<json hist>' <out>)"""
import sys, os, json, time, gc, threading, signal, subprocess


def t_ok(x):
    return x * 2


def t_exit(x):
    os._exit(3)


def t_sleep(x):
    time.sleep(x)
    return x


def t_nested(x):
    from loky import ProcessPoolExecutor
    with ProcessPoolExecutor(max_workers=1) as e:
        return e.submit(t_ok, x).result(timeout=60)


def lifecycle(kind):
    from loky import ProcessPoolExecutor, get_reusable_executor
    from loky.process_executor import BrokenProcessPool, ShutdownExecutorError
    if kind == "plain_clean":
        e = ProcessPoolExecutor(max_workers=2)
        assert [f.result(60) for f in [e.submit(t_ok, i) for i in range(4)]] == [0, 2, 4, 6]
        e.shutdown(wait=True)
    elif kind == "plain_ctx":
        with ProcessPoolExecutor(max_workers=2) as e:
            list(e.map(t_ok, range(5)))
    elif kind == "plain_nowait":
        e = ProcessPoolExecutor(max_workers=2)
        fs = [e.submit(t_ok, i) for i in range(4)]
        e.shutdown(wait=False)
        [f.result(60) for f in fs]
        t = e._executor_manager_thread
        if t is not None:
            t.join(60)
    elif kind == "plain_kill":
        e = ProcessPoolExecutor(max_workers=2)
        fs = [e.submit(t_sleep, 30) for i in range(3)]
        time.sleep(0.3)
        e.shutdown(wait=True, kill_workers=True)
    elif kind == "plain_broken":
        e = ProcessPoolExecutor(max_workers=2)
        fs = [e.submit(t_ok, 1), e.submit(t_exit, 1), e.submit(t_ok, 2)]
        for f in fs:
            try:
                f.result(60)
            except BrokenProcessPool:
                pass
        e.shutdown(wait=True)
    elif kind == "plain_timeout":
        e = ProcessPoolExecutor(max_workers=2, timeout=0.2)
        e.submit(t_ok, 1).result(60)
        time.sleep(0.8)
        e.submit(t_ok, 2).result(60)
        e.shutdown(wait=True)
    elif kind == "plain_cancel":
        e = ProcessPoolExecutor(max_workers=1)
        fs = [e.submit(t_sleep, 0.2)] + [e.submit(t_ok, i) for i in range(8)]
        for f in fs[3:]:
            f.cancel()
        e.shutdown(wait=True)
    elif kind == "reuse_same":
        e = get_reusable_executor(max_workers=2)
        e.submit(t_ok, 1).result(60)
        e2 = get_reusable_executor(max_workers=2)
        e2.submit(t_ok, 1).result(60)
        e2.shutdown(wait=True)
    elif kind == "reuse_resize":
        e = get_reusable_executor(max_workers=2)
        e.submit(t_ok, 1).result(60)
        e = get_reusable_executor(max_workers=3)
        e.submit(t_ok, 1).result(60)
        e = get_reusable_executor(max_workers=1)
        e.submit(t_ok, 1).result(60)
        e.shutdown(wait=True)
    elif kind == "reuse_broken":
        e = get_reusable_executor(max_workers=2)
        try:
            e.submit(t_exit, 1).result(60)
        except BrokenProcessPool:
            pass
        e = get_reusable_executor(max_workers=2)
        e.submit(t_ok, 1).result(60)
        e.shutdown(wait=True)
    elif kind == "reuse_kill":
        e = get_reusable_executor(max_workers=2)
        fs = [e.submit(t_sleep, 30) for _ in range(2)]
        time.sleep(0.3)
        e = get_reusable_executor(max_workers=2, kill_workers=True)
        e.submit(t_ok, 1).result(60)
        e.shutdown(wait=True)
    elif kind == "nested":
        with ProcessPoolExecutor(max_workers=1) as e:
            assert e.submit(t_nested, 3).result(120) == 6
    else:
        raise AssertionError(kind)
    e = None


def children():
    me = os.getpid()
    out = []
    for d in os.listdir("/proc"):
        if not d.isdigit():
            continue
        try:
            st = open("/proc/%s/stat" % d).read()
            rest = st[st.rindex(")") + 2:].split()
            if int(rest[1]) != me:
                continue
            cmd = open("/proc/%s/cmdline" % d).read()
            if "resource_tracker" in cmd:
                continue
            out.append((int(d), rest[0]))
        except (OSError, ValueError):
            continue
    return out


def measure():
    last = None
    stable = 0
    t0 = time.time()
    while time.time() - t0 < 20:
        gc.collect()
        m = dict(fds=len(os.listdir("/proc/self/fd")), threads=threading.active_count(), children=len(children()),
                 sems=len([f for f in os.listdir("/dev/shm") if f.startswith("sem.loky-%d-" % os.getpid())]))
        if m == last:
            stable += 1
            if stable >= 3:
                break
        else:
            stable = 0
        last = m
        time.sleep(0.15)
    m["zombies"] = [c for c in children() if c[1] == "Z"]
    m["thread_names"] = sorted(t.name for t in threading.enumerate())
    return m


def one(hist, outp, reps):
    signal.alarm(900)
    for k in hist:
        lifecycle(k)
    m1 = measure()
    for _ in range(reps):
        for k in hist:
            lifecycle(k)
    mN = measure()
    json.dump(dict(hist=hist, once=m1, many=mN, reps=reps), open(outp, "w"))
    sys.stdout.flush()
    os._exit(0)


def main():
    if sys.argv[1] == "--one":
        return one(json.loads(sys.argv[2]), sys.argv[3], int(sys.argv[4]))
    inp, outp = sys.argv[1], sys.argv[2]
    reps = int(sys.argv[3])
    res = []
    for i, line in enumerate(open(inp)):
        h = json.loads(line)
        of = outp + ".%d" % i
        p = subprocess.Popen([sys.executable, "-m", "engine.real.lifecycle_real", "--one", json.dumps(h["hist"]), of, str(reps)],
                             stdout=subprocess.DEVNULL, stderr=open(outp + ".%d.err" % i, "w"), start_new_session=True)
        try:
            p.wait(timeout=1000)
        except subprocess.TimeoutExpired:
            pass
        try:
            os.killpg(p.pid, signal.SIGKILL)
        except (ProcessLookupError, PermissionError):
            pass
        if os.path.exists(of):
            r = json.load(open(of))
        else:
            r = dict(hist=h["hist"], error=open(outp + ".%d.err" % i).read()[-1500:], rc=p.returncode)
        r["i"] = h["i"]
        res.append(r)
    json.dump(res, open(outp, "w"))


if __name__ == "__main__":
    main()
