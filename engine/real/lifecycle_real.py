"""E-REAL for C20: execute a history of executor lifecycles once, then N more times, with REAL executors, and compare the
parent's resource counts (open descriptors, live threads, child processes incl. zombies, named semaphores of this pid).
usage: python -m engine.real.lifecycle_real <histories.jsonl> <out.json>   (one fresh interpreter per history is started
by this driver: python -m engine.real.lifecycle_real --one '<json hist>' <out>)"""
import sys, os, json, time, gc, threading, signal, subprocess


BIG = 4 << 20          # larger than any pipe buffer
SIGNALS = {"KILL": signal.SIGKILL, "TERM": signal.SIGTERM, "SEGV": signal.SIGSEGV, "RT": signal.SIGRTMIN + 3}


def t_ok(x):
    return x * 2


def t_sleep(x):
    time.sleep(x)
    return x


def t_task(load, dur, arg):
    """one task of a lifecycle: lasts `dur`, carries the load"""
    if load == "nested":
        from loky import ProcessPoolExecutor
        with ProcessPoolExecutor(max_workers=1) as e:
            return e.submit(t_sleep, dur).result(timeout=120)
    time.sleep(dur)
    if load == "bigres":
        return b"r" * BIG
    return len(arg) if arg is not None else 0


def lifecycle(rec):
    """execute the lifecycle [pool, load, busy, end] of Lifecycle.tla with a real executor"""
    from loky import ProcessPoolExecutor, get_reusable_executor
    pool, load, busy, end = rec["pool"], rec["load"], rec["busy"], rec["end"]
    W = 2
    kw = dict(max_workers=W)
    if end == "timeout":
        kw["timeout"] = 0.2
    if rec.get("ctx", "loky") != "loky":
        kw["context"] = __import__("multiprocessing").get_context(rec["ctx"])
    make = ProcessPoolExecutor if pool == "plain" else get_reusable_executor
    if load == "spawnfail":
        # the workers cannot be spawned: their initargs do not pickle, the first submit() raises
        import threading
        e = make(initializer=print, initargs=(threading.Lock(),), **kw)
        try:
            e.submit(t_ok, 1)
            raise AssertionError("submit() did not raise although no worker can be spawned")
        except TypeError:
            pass
        if end == "wait":
            e.shutdown(wait=True)
        elif end == "ctx":
            with e:
                pass
        elif end == "nowait":
            e.shutdown(wait=False)
        else:
            e.shutdown(wait=True, kill_workers=True)
        e = None
        return
    e = make(**kw)
    arg = (b"a" * BIG) if load == "bigarg" else None
    e.submit(t_ok, 1).result(60)                       # the workers exist
    killing = end in ("kill", "crash", "replace_kill")
    fs = []
    if busy == "idle":
        fs = [e.submit(t_task, load, 0, arg) for _ in range(3)]
        [f.result(120) for f in fs]
    else:
        dur = 30 if killing else 0.4
        fs = [e.submit(t_task, load, dur, arg) for _ in range(W)]
        # every worker is inside a task (for "nested": has started its own executor and worker)
        t0 = time.time()
        while time.time() - t0 < 30:
            if all(f.running() for f in fs) and (load != "nested" or grandchildren(e) >= W):
                break
            time.sleep(0.02)
        time.sleep(0.2)
        if busy == "queued":
            fs += [e.submit(t_task, load, 0, arg) for _ in range(3)]
            time.sleep(0.2)

    def collect():
        for f in fs:
            try:
                f.result(120)
            except BaseException:
                pass

    if end == "wait":
        e.shutdown(wait=True)
    elif end == "ctx":
        with e:
            pass
    elif end == "nowait":
        e.shutdown(wait=False)
        collect()
        t = e._executor_manager_thread
        if t is not None:
            t.join(120)
    elif end == "kill":
        e.shutdown(wait=True, kill_workers=True)
    elif end == "crash":
        os.kill(sorted(e._processes)[0], SIGNALS[rec.get("sig") or "KILL"])
        collect()
        e.shutdown(wait=True)
    elif end == "timeout":
        timeout_generations(e)
        e.shutdown(wait=True)
    elif end == "cancel":
        for f in fs[W:]:
            f.cancel()
        e.shutdown(wait=True)
    elif end == "resize":
        e = get_reusable_executor(max_workers=3)
        e.submit(t_ok, 1).result(60)
        e = get_reusable_executor(max_workers=1)
        e.submit(t_ok, 1).result(60)
        e.shutdown(wait=True)
    elif end == "replace_kill":
        # other arguments than the running instance: it is shut down with kill_workers=True and replaced
        e = get_reusable_executor(max_workers=W, timeout=25, kill_workers=True)
        e.submit(t_ok, 1).result(60)
        e.shutdown(wait=True)
    else:
        raise AssertionError(end)
    collect()
    fs = e = None


class SlowPickle:
    """an argument that takes `dur` seconds to pickle (in the queue feeder thread) and arrives as the integer 3"""
    def __init__(self, dur):
        self.dur = dur

    def __reduce__(self):
        time.sleep(self.dur)
        return (int, (3,))


def timeout_generations(e):
    """idle time-outs over several generations of workers of an executor created with timeout=0.2: the first workers leave;
    submit() re-spawns; those leave; a task whose argument pickles slowly is submitted -- the workers submit() spawned time out
    while it is pending and the MANAGER THREAD re-spawns; those leave too; one more task.  Returns the results."""
    out = []
    time.sleep(0.8)
    out.append(e.submit(t_ok, 2).result(60))
    time.sleep(0.8)
    out.append(e.submit(t_ok, SlowPickle(0.7)).result(60))
    time.sleep(0.8)
    out.append(e.submit(t_ok, 4).result(60))
    return out


def grandchildren(e):
    """number of processes whose parent is a worker of e"""
    pids = set(e._processes)
    n = 0
    for d in os.listdir("/proc"):
        if not d.isdigit():
            continue
        try:
            st = open("/proc/%s/stat" % d).read()
            rest = st[st.rindex(")") + 2:].split()
            if int(rest[1]) in pids and "resource_tracker" not in open("/proc/%s/cmdline" % d).read():
                n += 1
        except (OSError, ValueError):
            continue
    return n


def children():
    me = os.getpid()
    out = []
    for d in os.listdir("/proc"):
        if not d.isdigit():
            continue
        try:
            st = open("/proc/%s/stat" % d).read()
            rest = st[st.rindex(")") + 2:].split()
            if int(rest[1]) != me:
                continue
            cmd = open("/proc/%s/cmdline" % d).read()
            if "resource_tracker" in cmd:
                continue
            out.append((int(d), rest[0]))
        except (OSError, ValueError):
            continue
    return out


def measure():
    last = None
    stable = 0
    t0 = time.time()
    while time.time() - t0 < 20:
        gc.collect()
        m = dict(fds=len(os.listdir("/proc/self/fd")), threads=threading.active_count(), children=len(children()),
                 sems=len([f for f in os.listdir("/dev/shm") if f.startswith("sem.loky-%d-" % os.getpid())]))
        if m == last:
            stable += 1
            if stable >= 3:
                break
        else:
            stable = 0
        last = m
        time.sleep(0.15)
    m["zombies"] = [c for c in children() if c[1] == "Z"]
    m["thread_names"] = sorted(t.name for t in threading.enumerate())
    return m


def one(hist, outp, reps):
    signal.alarm(400)
    for k in hist:
        lifecycle(k)
    m1 = measure()
    for _ in range(reps):
        for k in hist:
            lifecycle(k)
    mN = measure()
    json.dump(dict(hist=hist, once=m1, many=mN, reps=reps), open(outp, "w"))
    sys.stdout.flush()
    os._exit(0)


def main():
    if sys.argv[1] == "--one":
        return one(json.loads(sys.argv[2]), sys.argv[3], int(sys.argv[4]))
    inp, outp = sys.argv[1], sys.argv[2]
    reps = int(sys.argv[3])
    res = []
    for i, line in enumerate(open(inp)):
        h = json.loads(line)
        of = outp + ".%d" % i
        t0 = time.time()
        p = subprocess.Popen([sys.executable, "-m", "engine.real.lifecycle_real", "--one", json.dumps(h["hist"]), of, str(reps)],
                             stdout=subprocess.DEVNULL, stderr=open(outp + ".%d.err" % i, "w"), start_new_session=True)
        try:
            p.wait(timeout=420)
        except subprocess.TimeoutExpired:
            pass
        try:
            os.killpg(p.pid, signal.SIGKILL)
        except (ProcessLookupError, PermissionError):
            pass
        if os.path.exists(of):
            r = json.load(open(of))
        else:
            r = dict(hist=h["hist"], error=open(outp + ".%d.err" % i).read()[-1500:], rc=p.returncode)
        r["i"] = h["i"]
        r["seconds"] = round(time.time() - t0, 1)
        res.append(r)
    json.dump(res, open(outp, "w"))


if __name__ == "__main__":
    main()
