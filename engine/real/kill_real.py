"""E-REAL for C06: forced shutdown with REAL process trees (nested executors, subprocess grandchildren), with and without
psutil. usage: python -m engine.real.kill_real <case json> <out.json>
case = {"state": "running"|"finished"|"queued", "desc": "none"|"subprocess"|"nested", "via": "shutdown"|"reusable", "psutil": bool, "dur": seconds}"""
import sys, os, json, time, subprocess, signal


def _desc_pids(scratch):
    out = []
    for f in os.listdir(scratch):
        if f.startswith("pid."):
            try:
                out.append(int(open(os.path.join(scratch, f)).read()))
            except (OSError, ValueError):
                pass
    return out


def leave_subprocess(scratch, dur, wait):
    p = subprocess.Popen([sys.executable, "-c", "import time; time.sleep(%d)" % dur])
    open(os.path.join(scratch, "pid.sub.%d" % p.pid), "w").write(str(p.pid))
    open(os.path.join(scratch, "pid.w.%d" % os.getpid()), "w").write(str(os.getpid()))
    if wait:
        time.sleep(dur)
    return "left"


def _sleep_and_mark(scratch, dur):
    open(os.path.join(scratch, "pid.n.%d" % os.getpid()), "w").write(str(os.getpid()))
    time.sleep(dur)


def nested(scratch, dur, wait):
    from loky import ProcessPoolExecutor
    open(os.path.join(scratch, "pid.w.%d" % os.getpid()), "w").write(str(os.getpid()))
    e = ProcessPoolExecutor(max_workers=1)
    f = e.submit(_sleep_and_mark, scratch, dur)
    t0 = time.time()
    while not any(x.startswith("pid.n.") for x in os.listdir(scratch)) and time.time() - t0 < 30:
        time.sleep(0.05)
    if wait:
        f.result()
    globals()["_keep"] = e          # the nested executor stays alive in the worker
    return "left"


def plain(scratch, dur, wait):
    open(os.path.join(scratch, "pid.w.%d" % os.getpid()), "w").write(str(os.getpid()))
    if wait:
        time.sleep(dur)
    return "done"


def alive(pid):
    try:
        st = open("/proc/%d/stat" % pid).read()
        return st[st.rindex(")") + 2] not in ("Z", "X")
    except (OSError, ValueError):
        return False


def main():
    case = json.loads(sys.argv[1])
    outp, scratch = sys.argv[2], sys.argv[3]
    signal.alarm(170)
    if not case["psutil"]:
        import loky.backend.utils as lu
        lu.psutil = None
    from loky import ProcessPoolExecutor, get_reusable_executor
    from loky.process_executor import ShutdownExecutorError
    fn = dict(none=plain, subprocess=leave_subprocess, nested=nested)[case["desc"]]
    dur = case["dur"]
    if case["via"] == "reusable":
        e = get_reusable_executor(max_workers=2, timeout=50)
    else:
        e = ProcessPoolExecutor(max_workers=2)
    running = case["state"] != "finished"
    futs = [e.submit(fn, scratch, dur, running) for _ in range(2)]
    if case["state"] == "queued":
        futs += [e.submit(plain, scratch, dur, True) for _ in range(6)]
    if running:
        t0 = time.time()
        while len([x for x in os.listdir(scratch) if x.startswith("pid.w.")]) < 2 and time.time() - t0 < 60:
            time.sleep(0.05)
        if case["desc"] != "none":
            t0 = time.time()
            pref = "pid.sub." if case["desc"] == "subprocess" else "pid.n."
            while len([x for x in os.listdir(scratch) if x.startswith(pref)]) < 2 and time.time() - t0 < 60:
                time.sleep(0.05)
    else:
        for f in futs:
            f.result(timeout=120)
    workers = [p.pid for p in e._processes.values()]
    before = _desc_pids(scratch)
    t0 = time.time()
    if case["via"] == "reusable":
        e2 = get_reusable_executor(max_workers=2, timeout=50, kill_workers=True, reuse=False)
    else:
        e.shutdown(wait=True, kill_workers=True)
    took = time.time() - t0
    outcomes = []
    for f in futs:
        try:
            f.result(timeout=20)
            outcomes.append("result")
        except ShutdownExecutorError:
            outcomes.append("ShutdownExecutorError")
        except BaseException as ex:
            outcomes.append(type(ex).__name__)
    # everything of the recorded tree must be gone
    t1 = time.time()
    pids = set(before + workers)
    left = [p for p in pids if alive(p)]
    while left and time.time() - t1 < 3:
        time.sleep(0.1)
        left = [p for p in pids if alive(p)]
    json.dump(dict(took=took, outcomes=outcomes, left=left, tree=sorted(pids), workers=workers), open(outp, "w"))
    for p in left:
        try:
            os.kill(p, signal.SIGKILL)
        except OSError:
            pass
    if case["via"] == "reusable":
        e2.shutdown(wait=True, kill_workers=True)
    sys.stdout.flush()
    os._exit(0)


if __name__ == "__main__":
    main()
