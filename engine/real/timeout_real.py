"""E-REAL for C07: the idle-time-out lifecycles of Lifecycle.tla (end = "timeout", every start method of the workers)
executed with REAL executors created with timeout=0.2 over several generations of workers (first workers; re-spawned by
submit(); re-spawned by the manager thread while a slowly pickling task is pending), with the property's clauses
asserted: every task completes with its result (none is lost), nothing fails with a BrokenProcessPool error (a time-out
exit is never reported as a crash), the executor is not flagged broken, shutdown(wait=True) returns.
usage: python -m engine.real.timeout_real <cases.jsonl> <out.json>  (one fresh interpreter per case)"""
import sys, os, json, time, signal, subprocess, threading

T = 60.0


def one(rec, outp):
    signal.alarm(300)
    from engine.real import lifecycle_real as L
    from loky import ProcessPoolExecutor, get_reusable_executor
    from loky.process_executor import BrokenProcessPool
    import warnings
    warnings.simplefilter("ignore")
    why = None
    W = 2
    kw = dict(max_workers=W, timeout=0.2)
    if rec.get("ctx", "loky") != "loky":
        kw["context"] = __import__("multiprocessing").get_context(rec["ctx"])
    make = ProcessPoolExecutor if rec["pool"] == "plain" else get_reusable_executor
    e = make(**kw)
    arg = (b"a" * L.BIG) if rec["load"] == "bigarg" else None
    got = None
    try:
        e.submit(L.t_ok, 1).result(T)
        fs = [e.submit(L.t_task, rec["load"], 0, arg) for _ in range(3)]
        [f.result(2 * T) for f in fs]
        got = L.timeout_generations(e)
        if got != [4, 6, 8]:
            why = "the tasks submitted between idle time-outs returned %s, expected [4, 6, 8]" % (got,)
    except BrokenProcessPool as ex:
        why = "a task failed with %s although nothing crashed: an idle time-out exit was reported as a crash (%s)" % (type(ex).__name__, str(ex)[:160])
    except TimeoutError:
        why = "a task submitted between idle time-outs did not complete within %.0f s (lost)" % T
    except BaseException as ex:
        why = "unexpected %s: %s" % (type(ex).__name__, str(ex)[:160])
    if why is None and e._flags.broken is not None:
        why = "the executor is flagged broken after idle time-outs only: %s" % (str(e._flags.broken)[:160],)
    if why is None:
        th = threading.Thread(target=lambda: e.shutdown(wait=True), daemon=True)
        th.start()
        th.join(T)
        if th.is_alive():
            why = "shutdown(wait=True) has not returned after %.0f s" % T
    json.dump(dict(rec=rec, why=why, got=got), open(outp, "w"))
    sys.stdout.flush()
    os._exit(0)


def main():
    if sys.argv[1] == "--one":
        return one(json.loads(sys.argv[2]), sys.argv[3])
    inp, outp = sys.argv[1], sys.argv[2]
    res = []
    for i, line in enumerate(open(inp)):
        c = json.loads(line)
        of = outp + ".%d" % i
        p = subprocess.Popen([sys.executable, "-m", "engine.real.timeout_real", "--one", json.dumps(c["rec"]), of],
                             stdout=subprocess.DEVNULL, stderr=open(outp + ".%d.err" % i, "w"), start_new_session=True)
        try:
            p.wait(timeout=330)
        except subprocess.TimeoutExpired:
            pass
        try:
            os.killpg(p.pid, signal.SIGKILL)
        except (ProcessLookupError, PermissionError):
            pass
        if os.path.exists(of):
            r = json.load(open(of))
        else:
            r = dict(rec=c["rec"], error=open(outp + ".%d.err" % i).read()[-1500:], rc=p.returncode)
        r["i"] = c["i"]
        res.append(r)
    json.dump(res, open(outp, "w"))


if __name__ == "__main__":
    main()
