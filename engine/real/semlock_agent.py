"""E-REAL (light) for C14(b): replay TLC behaviours of SemLock.tla on the real loky.backend.synchronize objects from
two threads of the parent and two threads of a loky child process that receives every object as a pickled copy.

driver:  semlock_agent.py <cases.jsonl> <out.json>
  case = {"i":..., "kind": "Lock"|"RLock"|"Sem"|"BSem", "n": int, "steps": [[proc, thread, op, expected_out], ...]}
"""
import sys, os, json, threading, queue, pickle, traceback


class Agent:
    """two persistent threads executing non-blocking operations on the current object"""

    def __init__(self):
        self.obj = None
        self.q = {t: queue.Queue() for t in ("t1", "t2")}
        self.r = queue.Queue()
        for t in self.q:
            threading.Thread(target=self._loop, args=(t,), name=t, daemon=True).start()

    def _loop(self, t):
        while True:
            op = self.q[t].get()
            try:
                if op == "acquire":
                    res = "true" if self.obj.acquire(False) else "false"
                else:
                    self.obj.release()
                    res = "ok"
            except BaseException as ex:
                res = type(ex).__name__
            self.r.put(res)

    def do(self, t, op):
        self.q[t].put(op)
        return self.r.get(timeout=30)


def child_main(conn):
    ag = Agent()
    while True:
        msg = conn.recv()
        if msg[0] == "quit":
            conn.send("bye")
            return
        if msg[0] == "new":
            try:
                ag.obj = pickle.loads(msg[1])
                conn.send("ok")
            except BaseException as ex:
                conn.send("ERR " + repr(ex))
        elif msg[0] == "op":
            conn.send(ag.do(msg[1], msg[2]))
        elif msg[0] == "drop":
            ag.obj = None
            conn.send("ok")


def main():
    inp, outp = sys.argv[1], sys.argv[2]
    import multiprocessing as mp
    from multiprocessing import context as mpc
    from loky.backend import get_context
    from loky.backend.reduction import dumps
    import loky.backend.synchronize as LS
    ctx = get_context("loky")
    pc, cc = mp.Pipe()
    p = ctx.Process(target=child_main, args=(cc,))
    p.start()
    cc.close()
    me = Agent()
    out = []
    n = 0
    make = {"Lock": lambda k: LS.Lock(), "RLock": lambda k: LS.RLock(), "Sem": lambda k: LS.Semaphore(k),
            "BSem": lambda k: LS.BoundedSemaphore(k)}
    for line in open(inp):
        c = json.loads(line)
        n += 1
        obj = make[c["kind"]](c["n"])
        mpc.set_spawning_popen(p._popen if getattr(p, "_popen", None) is not None else object())
        try:
            data = bytes(dumps(obj))
        finally:
            mpc.set_spawning_popen(None)
        pc.send(("new", data))
        r = pc.recv()
        if r != "ok":
            out.append(dict(i=c["i"], why="the pickled copy could not be rebuilt in the loky child: %s" % r, step=0))
            continue
        me.obj = obj
        for k, (proc, thr, op, exp) in enumerate(c["steps"]):
            if proc == "P0":
                got = me.do(thr, op)
            else:
                pc.send(("op", thr, op))
                got = pc.recv()
            if got != exp:
                out.append(dict(i=c["i"], step=k + 1, why="%s %s by thread %s of %s gave %r, the specification requires %r" % (
                    c["kind"], op, thr, "the parent" if proc == "P0" else "the loky child (pickled copy)", got, exp)))
                break
        pc.send(("drop",))
        pc.recv()
        me.obj = None
        del obj
    pc.send(("quit",))
    try:
        pc.recv()
    except Exception:
        pass
    p.join(10)
    json.dump(dict(n=n, out=out, child_exit=p.exitcode), open(outp, "w"))
    sys.stdout.flush()
    os._exit(0)


if __name__ == "__main__":
    try:
        main()
    except BaseException:
        traceback.print_exc()
        sys.stdout.flush()
        sys.stderr.flush()
        os._exit(3)
