"""E-REAL for C02: the crash lifecycles of Lifecycle.tla (end = "crash": one worker is killed by a real signal while the
executor is idle / busy / has queued work) executed with REAL executors, with the property's clauses asserted:
every future resolves (a result, or an error of the BrokenProcessPool family), a later submit on the same instance is
refused with that error, shutdown(wait=True) returns, no worker is left, and the reusable singleton is replaced by a
working one.  usage: python -m engine.real.crash_real <cases.jsonl> <out.json>  (one fresh interpreter per case)"""
import sys, os, json, time, signal, subprocess

T = 40.0      # generous bound on every wait (a hang is reported, never a slow machine)


def one(rec, outp):
    signal.alarm(300)
    from engine.real import lifecycle_real as L
    from loky import ProcessPoolExecutor, get_reusable_executor
    from loky.process_executor import BrokenProcessPool
    why = None
    pool, load, busy = rec["pool"], rec["load"], rec["busy"]
    W = 2
    make = ProcessPoolExecutor if pool == "plain" else get_reusable_executor
    e = make(max_workers=W)
    arg = (b"a" * L.BIG) if load == "bigarg" else None
    e.submit(L.t_ok, 1).result(60)
    fs = []
    if busy == "idle":
        fs = [e.submit(L.t_task, load, 0, arg) for _ in range(3)]
        [f.result(120) for f in fs]
        fs = []
    else:
        fs = [e.submit(L.t_task, load, 30, arg) for _ in range(W)]
        t0 = time.time()
        while time.time() - t0 < 30:
            if all(f.running() for f in fs) and (load != "nested" or L.grandchildren(e) >= W):
                break
            time.sleep(0.02)
        time.sleep(0.2)
        if busy == "queued":
            fs += [e.submit(L.t_task, load, 0, arg) for _ in range(3)]
            time.sleep(0.2)
    pids = sorted(e._processes)
    victim = pids[0]
    os.kill(victim, L.SIGNALS[rec["sig"]])
    # (1) every future resolves, and not with a result that skipped the crash: a task of the dead worker cannot succeed
    t0 = time.time()
    outcomes = []
    for f in fs:
        try:
            f.result(max(0.1, T - (time.time() - t0)))
            outcomes.append("result")
        except BrokenProcessPool as ex:
            outcomes.append(type(ex).__name__)
        except TimeoutError:
            outcomes.append("PENDING")
        except BaseException as ex:
            outcomes.append("other:" + type(ex).__name__)
    if "PENDING" in outcomes:
        why = "a future is still pending %.0f s after a worker was killed by %s: %s" % (T, rec["sig"], outcomes)
    elif any(o.startswith("other:") for o in outcomes):
        why = "a future failed with something else than a BrokenProcessPool error: %s" % outcomes
    elif fs and busy != "idle" and "result" in outcomes[:W] and all(o == "result" for o in outcomes[:W]):
        why = "both running tasks returned a result although the worker running one of them was killed: %s" % outcomes
    # (2) the death is noticed: a submit on the same instance is refused (at the latest after the pool settled)
    if why is None:
        refused = None
        t0 = time.time()
        while time.time() - t0 < T:
            try:
                f = e.submit(L.t_ok, 1)
            except BrokenProcessPool as ex:
                refused = type(ex).__name__
                break
            except BaseException as ex:
                refused = "other:" + type(ex).__name__
                break
            try:
                f.result(10)
            except BrokenProcessPool as ex:
                refused = "future:" + type(ex).__name__
                break
            except BaseException:
                pass
            time.sleep(0.2)
        if refused is None:
            why = "submit() is still accepted and served %.0f s after a worker was killed by %s (the death went unnoticed)" % (T, rec["sig"])
        elif refused.startswith("other:"):
            why = "submit() on the broken executor raised %s, not an error of the BrokenProcessPool family" % refused[6:]
    # (3) shutdown terminates and leaves no worker
    if why is None:
        import threading
        th = threading.Thread(target=lambda: e.shutdown(wait=True), daemon=True)
        th.start()
        th.join(T)
        if th.is_alive():
            why = "shutdown(wait=True) of the broken executor has not returned after %.0f s" % T
    if why is None:
        t0 = time.time()
        while time.time() - t0 < 15 and any(os.path.exists("/proc/%d" % p) and open("/proc/%d/stat" % p).read().split(")")[-1].split()[0] != "Z" for p in pids):
            time.sleep(0.1)
        left = [p for p in pids if os.path.exists("/proc/%d" % p) and open("/proc/%d/stat" % p).read().split(")")[-1].split()[0] != "Z"]
        if left:
            why = "workers %s of the broken executor are still alive after shutdown" % left
    # (4) the reusable singleton is replaced by a working instance
    if why is None and pool == "reusable":
        try:
            e2 = get_reusable_executor(max_workers=W)
            if e2 is e:
                why = "get_reusable_executor returned the broken instance"
            elif e2.submit(L.t_ok, 21).result(T) != 42:
                why = "the replacement executor returned a wrong result"
            e2.shutdown(wait=True)
        except BaseException as ex:
            why = "get_reusable_executor after the crash raised %s: %s" % (type(ex).__name__, str(ex)[:100])
    json.dump(dict(rec=rec, why=why, outcomes=outcomes), open(outp, "w"))
    sys.stdout.flush()
    os._exit(0)


def main():
    if sys.argv[1] == "--one":
        return one(json.loads(sys.argv[2]), sys.argv[3])
    inp, outp = sys.argv[1], sys.argv[2]
    res = []
    for i, line in enumerate(open(inp)):
        c = json.loads(line)
        of = outp + ".%d" % i
        p = subprocess.Popen([sys.executable, "-m", "engine.real.crash_real", "--one", json.dumps(c["rec"]), of],
                             stdout=subprocess.DEVNULL, stderr=open(outp + ".%d.err" % i, "w"), start_new_session=True)
        try:
            p.wait(timeout=330)
        except subprocess.TimeoutExpired:
            pass
        try:
            os.killpg(p.pid, signal.SIGKILL)
        except (ProcessLookupError, PermissionError):
            pass
        if os.path.exists(of):
            r = json.load(open(of))
        else:
            r = dict(rec=c["rec"], error=open(outp + ".%d.err" % i).read()[-1500:], rc=p.returncode)
        r["i"] = c["i"]
        res.append(r)
    json.dump(res, open(outp, "w"))


if __name__ == "__main__":
    main()
