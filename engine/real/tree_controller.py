"""E-REAL controller for C12/C13: replays TLC behaviours of TrackerTree.tla on a real tree of loky processes.
usage: python -m engine.real.tree_controller <cases.jsonl> <out.json> <scratch>
case = {"i", "parent": {c: p}, "steps": [[op...]], "exp": [{alive, trk, tAlive, res:[{kind, exists}]}]}"""
import os, sys, json, time, signal, subprocess, shutil


class Tree:
    def __init__(self, scratch):
        self.scratch = scratch
        self.n = {}
        self.pids = {}
        self.root = None
        self.tmap = {}          # abstract tracker id -> real pid
        self.res = []           # real resource handles: dict(kind, path|semname)
        self.errlog = open(os.path.join(scratch, "root.err"), "w")

    def start_root(self):
        env = dict(os.environ)
        self.root = subprocess.Popen([sys.executable, "-m", "engine.real.tree_agent", self.scratch, "r"], stdout=self.errlog,
                                     stderr=self.errlog, stdin=subprocess.DEVNULL, start_new_session=True, env=env)
        self.pids["r"] = self.root.pid

    def cmd(self, name, timeout=30, **kw):
        k = self.n.get(name, 0) + 1
        self.n[name] = k
        tmp = os.path.join(self.scratch, "%s.cmd.%d.tmp" % (name, k))
        json.dump(kw, open(tmp, "w"))
        os.rename(tmp, os.path.join(self.scratch, "%s.cmd.%d" % (name, k)))
        rep = os.path.join(self.scratch, "%s.rep.%d" % (name, k))
        t0 = time.time()
        while time.time() - t0 < timeout:
            if os.path.exists(rep):
                return json.load(open(rep))
            time.sleep(0.01)
        return dict(ok=False, err="no reply from %s to %s" % (name, kw))

    def cleanup(self):
        for pid in list(self.pids.values()) + list(self.tmap.values()):
            try:
                os.kill(pid, signal.SIGKILL)
            except (ProcessLookupError, PermissionError, TypeError):
                pass
        if self.root is not None:
            try:
                self.root.wait(5)
            except Exception:
                pass
        for r in self.res:
            if r["kind"] == "sem":
                try:
                    os.unlink("/dev/shm/sem." + r["semname"].lstrip("/"))
                except OSError:
                    pass
        self.errlog.close()


def proc_state(pid):
    try:
        st = open("/proc/%d/stat" % pid).read()
        return st[st.rindex(")") + 2]
    except (OSError, ValueError):
        return None


def alive_pid(pid):
    return pid is not None and proc_state(pid) not in (None, "Z", "X")


def exists(r):
    if r["kind"] == "file":
        return os.path.exists(r["path"])
    return os.path.exists("/dev/shm/sem." + r["semname"].lstrip("/"))


def wait_for(pred, timeout):
    t0 = time.time()
    while time.time() - t0 < timeout:
        if pred():
            return True
        time.sleep(0.03)
    return pred()


def replay(case, scratch):
    t = Tree(scratch)
    why = None
    try:
        t.start_root()
        for k, (op, exp) in enumerate(zip(case["steps"], case["exp"])):
            kind = op[0]
            if kind == "spawn":
                r = t.cmd(op[1], op="spawn", child=op[2])
                if not r.get("ok"):
                    return "step %d %s failed: %s" % (k + 1, op, r.get("err")), t
                t.pids[op[2]] = r["pid"]
            elif kind == "track":
                if op[2] == "file":
                    path = os.path.join(scratch, "res%d" % len(t.res))
                    r = t.cmd(op[1], op="track_file", path=path)
                    t.res.append(dict(kind="file", path=path))
                else:
                    r = t.cmd(op[1], op="track_sem", id=len(t.res))
                    t.res.append(dict(kind="sem", semname=r.get("semname", "?")))
                if not r.get("ok"):
                    return "step %d: a tracked operation in process %s failed instead of transparently using / restarting the tracker: %s" % (k + 1, op[1], r.get("err")), t
            elif kind == "collect":
                i = op[1] - 1
                owner = case["owners"][i]
                r = t.cmd(owner, op="collect", id=i)
            elif kind == "die":
                t.cmd(op[1], op="die", how=op[2], timeout=10)
                pid = t.pids[op[1]]
                wait_for(lambda: not alive_pid(pid), 10)
            elif kind == "signal":
                pid = t.tmap.get(op[1])
                if pid:
                    os.kill(pid, signal.SIGINT if op[2] == "INT" else signal.SIGTERM)
                    time.sleep(0.25)
            elif kind == "killtracker":
                pid = t.tmap.get(op[1])
                if pid:
                    os.kill(pid, signal.SIGKILL)
                    wait_for(lambda: not alive_pid(pid), 5)
            # ---- compare with the specification's state
            # tracker identity per live process
            for p, st in exp["alive"].items():
                if st != "alive":
                    continue
                want = exp["trk"][p]
                r = t.cmd(p, op="tracker")
                if not r.get("ok"):
                    return "step %d %s: process %s does not answer (%s)" % (k + 1, op, p, r.get("err")), t
                got = r["tracker"]
                if want == 0:
                    if got is not None:
                        return "step %d %s: process %s reports to tracker pid %s before any tracked operation" % (k + 1, op, p, got), t
                    continue
                if want in t.tmap:
                    if got != t.tmap[want]:
                        return ("step %d %s: process %s reports to tracker pid %s, but the tracker of its tree is pid %s "
                                "(every process of a tree must report to the same tracker)" % (k + 1, op, p, got, t.tmap[want])), t
                else:
                    if got is None or got in t.tmap.values():
                        return "step %d %s: process %s should be served by a newly started tracker, it reports pid %s" % (k + 1, op, p, got), t
                    t.tmap[want] = got
            # tracker liveness
            for tid, want in exp["tAlive"].items():
                pid = t.tmap.get(int(tid))
                if pid is None:
                    continue
                swept = exp["swept"][tid]
                if want and not swept:
                    if not alive_pid(pid):
                        return "step %d %s: the resource tracker (pid %d) is gone although processes of the tree still rely on it" % (k + 1, op, pid), t
            # resources
            for i, want in enumerate(exp["res"]):
                r = t.res[i]
                if want["exists"]:
                    time.sleep(0.05)
                    if not exists(r):
                        what = "tracked file" if r["kind"] == "file" else "named semaphore %s" % r["semname"]
                        return "step %d %s: the %s was destroyed while processes still hold the tracker's pipe / its owner is alive" % (k + 1, op, what), t
                else:
                    if not wait_for(lambda: not exists(r), 8):
                        what = "tracked file" if r["kind"] == "file" else "named semaphore %s" % r["semname"]
                        return "step %d %s: the %s still exists (%s) although it must be gone by now" % (k + 1, op, what,
                                                                                                           "its owner collected it" if kind == "collect" else "the processes relying on it are gone"), t
        return None, t
    except BaseException as ex:
        return "harness: %s: %s" % (type(ex).__name__, ex), t


def main():
    inp, outp, scratch0 = sys.argv[1], sys.argv[2], sys.argv[3]
    out = []
    n = 0
    for line in open(inp):
        c = json.loads(line)
        n += 1
        sc = os.path.join(scratch0, "c%d" % c["i"])
        os.makedirs(sc, exist_ok=True)
        why, t = replay(c, sc)
        t.cleanup()
        if why:
            out.append(dict(i=c["i"], why=why, steps=c["steps"], log=open(os.path.join(sc, "root.err")).read()[-600:]))
        shutil.rmtree(sc, ignore_errors=True)
    json.dump(dict(n=n, out=out), open(outp, "w"))
    sys.stdout.flush()
    os._exit(0)


if __name__ == "__main__":
    main()
