"""E-REAL controller for C12/C13: replays TLC behaviours of TrackerTree.tla on a real tree of loky processes.
usage: python -m engine.real.tree_controller <cases.jsonl> <out.json> <scratch>
case = {"i", "parent": {c: p}, "steps": [[op...]], "exp": [{alive, trk, tAlive, res:[{kind, exists}]}]}"""
import os, sys, json, time, signal, subprocess, shutil


class Tree:
    def __init__(self, scratch):
        self.scratch = scratch
        self.n = {}
        self.pids = {}
        self.root = None
        self.tmap = {}          # abstract tracker id -> real pid
        self.res = []           # real resource handles: dict(kind, path|semname)
        self.errlog = open(os.path.join(scratch, "root.err"), "w")
        self.also = []          # findings that do not stop the replay

    def start_root(self, conf):
        env = dict(os.environ)
        env["VERIF_TREE_IMPORT"] = "1" if conf["imp"] else "0"
        flags = ["-W", "error"] if conf["strict"] else []
        self.root = subprocess.Popen([sys.executable] + flags + ["-m", "engine.real.tree_agent", self.scratch, "r"], stdout=self.errlog,
                                     stderr=self.errlog, stdin=subprocess.DEVNULL, start_new_session=True, env=env)
        self.pids["r"] = self.root.pid

    def cmd(self, name, timeout=30, **kw):
        k = self.n.get(name, 0) + 1
        self.n[name] = k
        tmp = os.path.join(self.scratch, "%s.cmd.%d.tmp" % (name, k))
        json.dump(kw, open(tmp, "w"))
        os.rename(tmp, os.path.join(self.scratch, "%s.cmd.%d" % (name, k)))
        rep = os.path.join(self.scratch, "%s.rep.%d" % (name, k))
        t0 = time.time()
        while time.time() - t0 < timeout:
            if os.path.exists(rep):
                return json.load(open(rep))
            time.sleep(0.01)
        return dict(ok=False, err="no reply from %s to %s" % (name, kw))

    def cleanup(self):
        for pid in list(self.pids.values()) + list(self.tmap.values()):
            try:
                os.kill(pid, signal.SIGKILL)
            except (ProcessLookupError, PermissionError, TypeError):
                pass
        if self.root is not None:
            try:
                self.root.wait(5)
            except Exception:
                pass
        for r in self.res:
            if r["kind"] == "sem":
                try:
                    os.unlink("/dev/shm/sem." + r["semname"].lstrip("/"))
                except OSError:
                    pass
        self.errlog.close()


def proc_state(pid):
    try:
        st = open("/proc/%d/stat" % pid).read()
        return st[st.rindex(")") + 2]
    except (OSError, ValueError):
        return None


def alive_pid(pid):
    return pid is not None and proc_state(pid) not in (None, "Z", "X")


def session_trackers(sid):
    """pids of live resource-tracker processes in the session of the root agent"""
    out = []
    for d in os.listdir("/proc"):
        if not d.isdigit():
            continue
        try:
            st = open("/proc/%s/stat" % d).read()
            f = st[st.rindex(")") + 2:].split()
            if int(f[3]) != sid or f[0] in ("Z", "X"):
                continue
            cl = open("/proc/%s/cmdline" % d, "rb").read()
        except (OSError, ValueError):
            continue
        if b"loky.backend.resource_tracker import main" in cl:
            out.append(int(d))
    return out


def exists(r):
    if r["kind"] == "file":
        return os.path.exists(r["path"])
    return os.path.exists("/dev/shm/sem." + r["semname"].lstrip("/"))


def wait_for(pred, timeout):
    t0 = time.time()
    while time.time() - t0 < timeout:
        if pred():
            return True
        time.sleep(0.03)
    return pred()


def replay(case, scratch):
    t = Tree(scratch)
    why = None
    conf = case["conf"]
    try:
        t.start_root(conf)
        if conf["imp"]:
            # the root's import-time lock is resource 1 of the specification's initial state
            r = t.cmd("r", op="tracker")
            if not r.get("ok") or not r.get("imp"):
                return "harness: the root agent did not report its import-time lock: %s" % r, t
            t.res.append(dict(kind="sem", semname=r["imp"]["semname"], key="imp", imp_tracker=r["imp"]["tracker"]))
            t.tmap[1] = r["tracker"]
        for k, (op, exp) in enumerate(zip(case["steps"], case["exp"])):
            kind = op[0]
            if kind == "spawn":
                r = t.cmd(op[1], op="spawn", child=op[2], method=conf["method"])
                if not r.get("ok"):
                    return "step %d %s failed: %s" % (k + 1, op, r.get("err")), t
                t.pids[op[2]] = r["pid"]
                if len(exp["res"]) > len(t.res):
                    # loky_init_main: the child imported the main module, whose lock is a new resource of the tree
                    r = t.cmd(op[2], op="tracker")
                    if not r.get("ok"):
                        return "step %d %s: process %s does not answer (%s)" % (k + 1, op, op[2], r.get("err")), t
                    if not r.get("imp"):
                        return ("step %d %s: the child started with loky_init_main did not import the parent's main module "
                                "(no import-time lock)" % (k + 1, op)), t
                    t.res.append(dict(kind="sem", semname=r["imp"]["semname"], key="imp", imp_tracker=r["imp"]["tracker"]))
            elif kind == "track":
                if op[2] == "file":
                    path = os.path.join(scratch, "res%d" % len(t.res))
                    r = t.cmd(op[1], op="track_file", path=path)
                    t.res.append(dict(kind="file", path=path))
                else:
                    r = t.cmd(op[1], op="track_sem", id=len(t.res))
                    t.res.append(dict(kind="sem", semname=r.get("semname", "?"), key=len(t.res)))
                if not r.get("ok"):
                    return "step %d: a tracked operation in process %s failed instead of transparently using / restarting the tracker: %s" % (k + 1, op[1], r.get("err")), t
            elif kind == "collect":
                i = op[1] - 1
                owner = case["owners"][i]
                r = t.cmd(owner, op="collect", id=t.res[i]["key"])
            elif kind == "vanish":
                try:
                    os.unlink(t.res[op[1] - 1]["path"])
                except OSError:
                    pass
            elif kind == "die":
                t.cmd(op[1], op="die", how=op[2], timeout=10)
                pid = t.pids[op[1]]
                wait_for(lambda: not alive_pid(pid), 10)
            elif kind == "signal":
                pid = t.tmap.get(op[1])
                if pid:
                    try:
                        os.kill(pid, signal.SIGINT if op[2] == "INT" else signal.SIGTERM)
                    except ProcessLookupError:
                        pass          # a tracker that has swept and left; one that should still be there is missed below
                    time.sleep(0.25)
            elif kind == "killtracker":
                pid = t.tmap.get(op[1])
                if pid:
                    try:
                        os.kill(pid, signal.SIGKILL)
                    except ProcessLookupError:
                        pass
                    wait_for(lambda: not alive_pid(pid), 5)
            # ---- compare with the specification's state
            # tracker identity per live process
            for p, st in exp["alive"].items():
                if st != "alive":
                    continue
                want = exp["trk"][p]
                r = t.cmd(p, op="tracker")
                if not r.get("ok"):
                    return "step %d %s: process %s does not answer (%s)" % (k + 1, op, p, r.get("err")), t
                got = r["tracker"]
                if want == 0:
                    if got is not None:
                        return "step %d %s: process %s reports to tracker pid %s before any tracked operation" % (k + 1, op, p, got), t
                    continue
                if want in t.tmap:
                    if got != t.tmap[want]:
                        return ("step %d %s: process %s reports to tracker pid %s, but the tracker of its tree is pid %s "
                                "(every process of a tree must report to the same tracker)" % (k + 1, op, p, got, t.tmap[want])), t
                else:
                    if got is None or got in t.tmap.values():
                        return "step %d %s: process %s should be served by a newly started tracker, it reports pid %s" % (k + 1, op, p, got), t
                    t.tmap[want] = got
            # the tracker that served each import-time lock, and stray tracker processes
            for i, want in enumerate(exp["res"]):
                it = t.res[i].get("imp_tracker", 0)
                if it != 0 and want["tracker"] in t.tmap and it != t.tmap[want["tracker"]]:
                    if not any("imported the main module" in w for w in t.also):
                        t.also.append("step %d %s: the lock created while process %s imported the main module was registered with tracker pid %s, "
                                      "but the tracker of its tree is pid %s (every process of a tree must report to the same tracker)"
                                      % (k + 1, op, case["owners"][i], it, t.tmap[want["tracker"]]))
            strays = lambda: [p for p in session_trackers(t.root.pid) if p not in t.tmap.values()]
            # (a process that ends normally with a dead tracker starts a short-lived one for its finalizers: give it time to end)
            if not any("besides the tracker" in w for w in t.also):
                wait_for(lambda: not strays(), 4)
            stray = strays()
            if stray and not any("besides the tracker" in w for w in t.also):
                t.also.append("step %d %s: tracker process(es) %s exist in the tree besides the tracker(s) %s its processes report to"
                              % (k + 1, op, stray, sorted(t.tmap.values())))
            # tracker liveness
            for tid, want in exp["tAlive"].items():
                pid = t.tmap.get(int(tid))
                if pid is None:
                    continue
                swept = exp["swept"][tid]
                if want and not swept:
                    if not alive_pid(pid):
                        return "step %d %s: the resource tracker (pid %d) is gone although processes of the tree still rely on it" % (k + 1, op, pid), t
            # resources
            for i, want in enumerate(exp["res"]):
                r = t.res[i]
                if want["exists"]:
                    time.sleep(0.05)
                    if not exists(r):
                        what = "tracked file" if r["kind"] == "file" else "named semaphore %s" % r["semname"]
                        return "step %d %s: the %s was destroyed while processes still hold the tracker's pipe / its owner is alive" % (k + 1, op, what), t
                else:
                    if not wait_for(lambda: not exists(r), 8):
                        what = "tracked file" if r["kind"] == "file" else "named semaphore %s" % r["semname"]
                        return "step %d %s: the %s still exists (%s) although it must be gone by now" % (k + 1, op, what,
                                                                                                           "its owner collected it" if kind == "collect" else "the processes relying on it are gone"), t
        # what the trackers of the tree wrote: a request on a name the tracker does not know (KeyError) means that a resource
        # was registered with one tracker and released with another; a "leaked" report is legitimate only if the history
        # leaves a semaphore to a tracker's sweep
        time.sleep(0.3)
        t.errlog.flush()
        txt = open(os.path.join(scratch, "root.err")).read()
        killed = any(op[0] == "killtracker" for op in case["steps"])       # after a tracker was killed, names it knew are unknown to its successor
        if "KeyError" in txt and not killed:
            return ("end of history: a resource tracker of the tree reported a request on a name it does not know (KeyError): a semaphore "
                    "was registered with one tracker and released with another -- reported: %s" % txt[txt.index("KeyError"):][:160].replace("\n", " ")), t
        if "leaked semlock" in txt and not case.get("sweep_sem") and all(not r.get("exists", True) for r in exp["res"] if r["kind"] == "sem"):
            return ("end of history: a 'leaked semlock' is reported although every semaphore of the history was properly released "
                    "(collected, or its owner ended normally)"), t
        return None, t
    except BaseException as ex:
        return "harness: %s: %s" % (type(ex).__name__, ex), t


def main():
    inp, outp, scratch0 = sys.argv[1], sys.argv[2], sys.argv[3]
    out = []
    n = 0
    for line in open(inp):
        c = json.loads(line)
        n += 1
        sc = os.path.join(scratch0, "c%d" % c["i"])
        os.makedirs(sc, exist_ok=True)
        why, t = replay(c, sc)
        t.cleanup()
        for w in ([why] if why else []) + list(t.also):
            out.append(dict(i=c["i"], why=w, steps=c["steps"], log=open(os.path.join(sc, "root.err")).read()[-600:]))
        shutil.rmtree(sc, ignore_errors=True)
    json.dump(dict(n=n, out=out), open(outp, "w"))
    sys.stdout.flush()
    os._exit(0)


if __name__ == "__main__":
    main()
