"""child side of the C18 process-level check (importable module, never __main__)"""
import os, sys, signal


def report(conn, marker_dir, keys, end):
    seen = []
    for fd in os.listdir("/proc/self/fd"):
        try:
            tgt = os.readlink("/proc/self/fd/" + fd)
        except OSError:
            continue
        if tgt.startswith(marker_dir + "/m"):
            seen.append([int(fd), os.path.basename(tgt)])
    env = {k: os.environ.get(k, "<unset>") for k in keys}
    conn.send(dict(seen=seen, env=env, pid=os.getpid()))
    conn.recv()                      # wait for the parent's go
    conn.close()
    if end[0] == "exit":
        sys.exit(end[1])
    os.kill(os.getpid(), end[1])
    import time
    time.sleep(30)
