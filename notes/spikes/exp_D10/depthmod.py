import os
def init_probe(path):
    import loky.process_executor as pe
    try:
        e = pe.ProcessPoolExecutor(1)      # nested executor created inside the initializer
        r = "initializer: nested creation SUCCEEDED, _CURRENT_DEPTH seen=%d MAX_DEPTH=%d" % (pe._CURRENT_DEPTH, pe.MAX_DEPTH)
        e.shutdown()
    except Exception as ex:
        r = "initializer: nested creation refused: " + type(ex).__name__
    open(path, "w").write(r)
def task_probe():
    import loky.process_executor as pe
    try:
        e = pe.ProcessPoolExecutor(1); e.shutdown()
        return "task: nested creation SUCCEEDED at depth %d" % pe._CURRENT_DEPTH
    except Exception as ex:
        return "task: nested creation refused (%s) at depth %d" % (type(ex).__name__, pe._CURRENT_DEPTH)
