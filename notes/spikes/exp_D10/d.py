import os, sys
sys.path.insert(0, "/verif/.work")
import depthmod
from loky.process_executor import ProcessPoolExecutor
if __name__ == "__main__":
    p = "/verif/.work/init.out"
    e = ProcessPoolExecutor(1, initializer=depthmod.init_probe, initargs=(p,))
    print(e.submit(depthmod.task_probe).result(timeout=30))
    print(open(p).read())
    e.shutdown()
