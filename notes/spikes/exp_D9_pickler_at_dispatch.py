import time, os
from loky.process_executor import ProcessPoolExecutor
from loky.backend.reduction import get_loky_pickler_name, set_loky_pickler
if __name__ == "__main__":
    e = ProcessPoolExecutor(1)
    f0 = e.submit(time.sleep, 1.0)
    fs = [e.submit(get_loky_pickler_name) for _ in range(8)]     # all submitted under 'cloudpickle'
    time.sleep(0.2)
    set_loky_pickler("pickle")                                    # changed after submission
    print("submit-time pickler: cloudpickle; worker used:", [f.result(timeout=20) for f in fs])
    set_loky_pickler("cloudpickle")
    e.shutdown()
