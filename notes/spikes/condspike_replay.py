"""THROW-AWAY DESIGN SPIKE: replay the TLC counterexample of Cond_spike.tla (lost notify, D5)
into the REAL loky.backend.synchronize.Condition code, on instrumented semaphores installed
through the class's own __setstate__, under a baton scheduler that follows the TLC schedule.
Run: /venv/bin/python condspike_replay.py
"""
import threading, sys, os
from loky.backend.synchronize import Condition

class Baton:
    def __init__(self): self.cv = threading.Condition(); self.cur = None; self.blocked = {}
    def wait_turn(self, me):
        with self.cv:
            while self.cur != me: self.cv.wait()
    def give(self, who):
        with self.cv: self.cur = who; self.cv.notify_all()
B = Baton()
LOG = []

def me(): return threading.current_thread().name

def step(label, pred=None):
    """end my turn; resume when the controller gives me the baton (and pred holds)"""
    n = me()
    B.blocked[n] = (label, pred)
    B.give("ctl"); B.wait_turn(n)
    return B.blocked[n][2] if len(B.blocked[n]) > 2 else "ok"

class _SL:
    def __init__(s, o): s.o = o
    def _is_mine(s): return s.o.owner == me()
    def _count(s): return s.o.count if s.o.owner == me() else 0
    def _get_value(s): return s.o.v

class FakeSem:
    def __init__(s, name, v=0, rlock=False):
        s.name, s.v, s.rlock, s.owner, s.count = name, v, rlock, None, 0; s._semlock = _SL(s)
    def acquire(s, block=True, timeout=None):
        if s.rlock and s.owner == me():
            s.count += 1; return True
        if not block:
            r = step(f"{s.name}.try"); ok = s.v > 0
            if ok: s._take()
            LOG.append((me(), f"{s.name}.try", ok)); return ok
        r = step(f"{s.name}.acq", pred=lambda: s.v > 0) if timeout is None else step(f"{s.name}.acq_t", pred=lambda: s.v > 0)
        if r == "timeout":
            LOG.append((me(), f"{s.name}.acq", "TIMEOUT")); return False
        s._take(); LOG.append((me(), f"{s.name}.acq", True)); return True
    def _take(s):
        s.v -= 1
        if s.rlock: s.owner, s.count = me(), 1
    def release(s):
        if s.rlock and s.owner == me() and s.count > 1:
            s.count -= 1; return
        step(f"{s.name}.rel"); s.v += 1
        if s.rlock: s.owner, s.count = None, 0
        LOG.append((me(), f"{s.name}.rel", s.v))
    def __enter__(s): return s.acquire()
    def __exit__(s, *a): s.release()

lock = FakeSem("lock", 1, rlock=True); sleeping = FakeSem("sleeping"); woken = FakeSem("woken"); waitsem = FakeSem("waitsem")
cond = Condition.__new__(Condition)
cond.__setstate__((lock, sleeping, woken, waitsem))      # exactly the pickled state of a Condition

results = {}
def waiter(timeout):
    B.wait_turn(me())
    with cond:
        results[me()] = cond.wait(timeout)
    B.blocked[me()] = ("done", None); B.give("ctl")
def notifier():
    B.wait_turn(me())
    with cond:
        cond.notify()
    results[me()] = "notified"
    B.blocked[me()] = ("done", None); B.give("ctl")

ths = {"a": threading.Thread(target=waiter, args=(5.0,), name="a", daemon=True),
       "b": threading.Thread(target=waiter, args=(None,), name="b", daemon=True),
       "N": threading.Thread(target=notifier, name="N", daemon=True)}
for t in ths.values(): t.start()

def run(who, outcome="ok"):
    """let thread `who` perform its pending operation (or fire its timeout) and run to its next one"""
    if who in B.blocked and B.blocked[who][0] != "done":
        label, pred = B.blocked[who][:2]
        if outcome == "ok" and pred is not None and not pred():
            raise SystemExit(f"DRIFT: {who} cannot perform {label}: blocked")
        B.blocked[who] = (label, pred, outcome)
    B.give(who); B.wait_turn("ctl")
    LOG.append(("ctl", f"ran {who}", B.blocked[who][0]))

# Schedule derived from the TLC counterexample (states 1..17 of Cond_spike):
#   a: lock, sleeping++, unlock, blocks on waitsem ; b: lock ; a: TIMEOUT ; b: sleeping++, unlock, blocks ;
#   N: lock, assert, rezero loop, grab sleeper, waitsem++ ; a: woken++ ; N: woken--, rezero waitsem, unlock
B.wait_turn  # noqa
B.cur = "ctl"
sched = [("a","ok")]*1      # a: reaches lock.acq
def until(who, label_prefix, outcome="ok", maxn=20):
    for _ in range(maxn):
        if B.blocked.get(who, ("",))[0].startswith(label_prefix): return
        run(who, outcome)
    raise SystemExit(f"DRIFT: {who} never reached {label_prefix}: at {B.blocked.get(who)}")
run("a"); until("a", "waitsem.acq")          # a asleep on _wait_semaphore (has released sleeping_count, lock)
run("b"); until("b", "sleeping.rel")         # b holds the lock, about to announce itself
run("a", "timeout")                           # a's timeout fires; a is now about to release woken_count
assert B.blocked["a"][0] == "woken.rel", B.blocked["a"]
until("b", "waitsem.acq")                     # b asleep, no timeout
run("N"); until("N", "woken.acq")             # N: took lock, rezero loop (woken=0), grabbed a sleeper, waitsem++ , now waits woken
run("a")                                      # a: woken_count.release()  (the timed-out waiter)
until("N", "done")                            # N: woken.acquire() succeeds thanks to a; rezero steals b's permit; unlock
until("a", "done")
print("results:", results, "| b still blocked on:", B.blocked["b"][0], "| waitsem =", waitsem.v, "sleeping =", sleeping.v, "woken =", woken.v)
ok = results.get("a") is False and "b" not in results and B.blocked["b"][0].startswith("waitsem.acq") and waitsem.v == 0
print("LOST NOTIFY REPRODUCED ON REAL Condition CODE" if ok else "not reproduced")
sys.stdout.flush(); os._exit(0)
