#!/bin/bash
# usage: run.sh script.py timeout_s  -> output in script.out
cd /tmp/exp
s=$1; t=${2:-60}
setsid timeout -k 2 $t /venv/bin/python -u $s > ${s%.py}.out 2>&1 < /dev/null
echo "rc=$?" >> ${s%.py}.out
pkill -9 -f 'popen_loky_[p]osix' ; pkill -9 -f 'resource_tracker import [m]ain' ; true
