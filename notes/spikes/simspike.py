"""THROW-AWAY DESIGN SPIKE (not part of the verification machinery).

Question answered: can the *unmodified* loky manager / feeder / worker / submit code run
inside one process on modelled primitives under a deterministic baton scheduler, by
substituting module globals only?  (DESIGN.md section 4.1)

Run:  /venv/bin/python simspike.py [scenario] [seed]
"""
import os, sys, pickle, random, threading, itertools, collections, time as _rtime

_real_start = threading.Thread.start
_real_join = threading.Thread.join


class Quiescent(Exception):
    pass


class Sched:
    def __init__(self, seed=0, timeout_prob=0.0):
        self.rng = random.Random(seed)
        self.cv = threading.Condition()
        self.cur = None
        self.threads = {}          # real thread -> record
        self.trace = []
        self.now = 0.0
        self.timeout_prob = timeout_prob
        self.proc_globals = {}     # proc -> {(mod,name): value}
        self.cur_proc = "parent"
        self.local_names = []      # [(module, name)]
        self.quiescent = False

    # -- registration -------------------------------------------------------------------
    def adopt_current(self, name, proc="parent"):
        t = threading.current_thread()
        self.threads[t] = dict(name=name, proc=proc, pred=None, tmo=False, state="run", res=None)
        self.cur = t

    def spawn(self, thread, name, proc):
        rec = dict(name=name, proc=proc, pred=None, tmo=False, state="ready", res=None)
        self.threads[thread] = rec
        orig_run = thread.run

        def run():
            with self.cv:
                while self.cur is not thread:
                    self.cv.wait()
            try:
                orig_run()
            except SystemExit:
                pass
            finally:
                rec["state"] = "done"
                self._handover(None)
        thread.run = run
        _real_start(thread)

    # -- the single scheduling primitive --------------------------------------------------
    def step(self, label, pred=None, tmo=False):
        """Called by the running thread before every primitive op. Returns 'ok' | 'timeout'."""
        me = threading.current_thread()
        rec = self.threads.get(me)
        if rec is None:       # not a sim thread (e.g. interpreter internals): run straight
            return "ok"
        if getattr(self, "max_steps", None) and len(self.trace) > self.max_steps:
            import hashlib
            print("LIVELOCK? step budget exceeded; last labels of", rec["name"], rec.get("hist", [])[-6:], "tracehash", hashlib.md5(repr(self.trace).encode()).hexdigest()[:8], "h100", hashlib.md5(repr(self.trace[:100]).encode()).hexdigest()[:8])
            sys.stdout.flush(); os._exit(3)
        rec.update(pred=pred, tmo=tmo, state="ready", label=label)
        rec.setdefault("hist", []).append(label)
        self._handover(me)
        return rec["res"]

    def _enabled(self):
        out = []
        for t, r in self.threads.items():
            if r["state"] != "ready":
                continue
            if r["pred"] is None or r["pred"]():
                out.append((t, "ok"))
            elif r["tmo"] and r["tmo"] is not True and r["tmo"] < 5.0 and self.rng.random() < self.timeout_prob:
                out.append((t, "timeout"))
        return out

    def _handover(self, me):
        with self.cv:
            for act in list(getattr(self, "env_actions", [])):
                if act():
                    self.env_actions.remove(act)
            en = self._enabled()
            if not en:
                # nothing enabled: fire a timeout if any thread has one pending, else quiescence
                tm = [t for t, r in self.threads.items() if r["state"] == "ready" and r["tmo"]]
                if tm:
                    en = [(self.rng.choice(tm), "timeout")]
                    self.now += 1.0
                else:
                    self.quiescent = True
                    drv = [t for t, r in self.threads.items() if r["name"] == "driver"][0]
                    en = [(drv, "quiescent")]
            starve = os.environ.get("SIMSPIKE_STARVE")
            if starve:
                en2 = [(t, x) for t, x in en if self.threads[t]["name"] != starve]
                en = en2 or en
            t, res = self.rng.choice(en)
            r = self.threads[t]
            r["res"] = res
            r["state"] = "run"
            self.trace.append((r["name"], r.get("label"), res))
            self._swap_globals(r["proc"])
            self.cur = t
            self.cv.notify_all()
            if me is not None and t is not me:
                while self.cur is not me:
                    self.cv.wait()

    def _swap_globals(self, proc):
        if proc == self.cur_proc:
            return
        save = self.proc_globals.setdefault(self.cur_proc, {})
        for mod, name in self.local_names:
            save[(mod, name)] = getattr(mod, name)
        load = self.proc_globals.get(proc)
        if load is None:
            load = self.proc_globals[proc] = {k: self.fresh[k]() for k in self.fresh}
        for (mod, name), v in load.items():
            setattr(mod, name, v)
        self.cur_proc = proc

    def kill_thread_group(self, proc):
        for r in self.threads.values():
            if r["proc"] == proc and r["state"] != "done":
                r["state"] = "dead"


S = None  # the scheduler


# ---- modelled primitives ------------------------------------------------------------------
class _SemLockView:
    def __init__(self, o): self.o = o
    def _is_zero(self): return self.o.v == 0
    def _get_value(self): return self.o.v
    def _is_mine(self): return self.o.owner is threading.current_thread()
    def _count(self): return 1 if self._is_mine() else 0


class SimSem:
    def __init__(self, value=1, maxvalue=None, name="sem"):
        self.v, self.max, self.name, self.owner = value, maxvalue, name, None
        self._semlock = _SemLockView(self)
    def acquire(self, block=True, timeout=None):
        if not block:
            S.step(f"{self.name}.try")
            if self.v > 0:
                self.v -= 1; self.owner = threading.current_thread(); return True
            return False
        r = S.step(f"{self.name}.acq", pred=lambda: self.v > 0, tmo=timeout if timeout is not None else False)
        if r != "ok":
            return False
        self.v -= 1; self.owner = threading.current_thread(); return True
    def release(self):
        S.step(f"{self.name}.rel")
        if self.max is not None and self.v >= self.max:
            raise ValueError("semaphore or lock released too many times")
        self.v += 1; self.owner = None
    def locked(self): return self.v == 0
    __enter__ = lambda self: self.acquire()
    def __exit__(self, *a): self.release()


def SimLock(name="lock"): return SimSem(1, 1, name)


class SimCondition:
    def __init__(self, lock=None):
        self.lock = lock or SimLock("condlock"); self.tickets = 0; self.waiters = 0
        self.acquire, self.release = self.lock.acquire, self.lock.release
    def __enter__(self): return self.lock.acquire()
    def __exit__(self, *a): self.lock.release()
    def wait(self, timeout=None):
        self.waiters += 1
        self.lock.release()
        r = S.step("cond.wait", pred=lambda: self.tickets > 0, tmo=timeout is not None)
        self.waiters -= 1
        if r == "ok": self.tickets -= 1
        self.lock.acquire()
        return r == "ok"
    def notify(self, n=1):
        self.tickets = min(self.waiters, self.tickets + n)
    def notify_all(self): self.tickets = self.waiters


_fd = itertools.count(1000)
class SimConn:
    def __init__(self, chan, readable, writable, name):
        self.chan, self.readable, self.writable, self.name = chan, readable, writable, name
        self.closed = False; self._fd = next(_fd)
    def fileno(self): return self._fd
    def send_bytes(self, b):
        S.step(f"{self.name}.send")
        self.chan.append(bytes(b))
    def send(self, obj): self.send_bytes(pickle.dumps(obj))
    def recv_bytes(self):
        S.step(f"{self.name}.recv", pred=lambda: len(self.chan) > 0)
        return self.chan.popleft()
    def recv(self): return pickle.loads(self.recv_bytes())
    def poll(self, timeout=0.0):
        if not timeout:
            S.step(f"{self.name}.poll0"); return len(self.chan) > 0
        r = S.step(f"{self.name}.poll", pred=lambda: len(self.chan) > 0, tmo=timeout)
        return r == "ok"
    def close(self): self.closed = True
    def ready(self): return len(self.chan) > 0

def sim_pipe(duplex=False, name=[0]):
    name[0] += 1
    ch = collections.deque()
    return SimConn(ch, True, False, f"pipe{name[0]}r"), SimConn(ch, False, True, f"pipe{name[0]}w")


class Sentinel:
    def __init__(self, p): self.p = p
    def ready(self): return self.p._dead


def sim_wait(objs, timeout=None):
    r = S.step("wait", pred=lambda: any(o.ready() for o in objs), tmo=timeout is not None)
    return [o for o in objs if o.ready()]


_pid = itertools.count(101)
class SimProcess:
    def __init__(self, target=None, args=(), env=None, name=None):
        self.target, self.args, self.env = target, args, env
        self.pid = None; self._dead = False; self.exitcode = None
        self.name = name or "SimProcess"; self.sentinel = Sentinel(self)
    def start(self):
        from multiprocessing import context as mpc
        self.pid = next(_pid); self.name = f"SimProcess-{self.pid}"
        mpc.set_spawning_popen(self)
        try:
            args = []
            for a in self.args:   # hand queues over through their own get/setstate
                if hasattr(a, "__getstate__") and type(a).__module__.startswith("loky.backend.queues") \
                        or type(a).__name__ in ("_SafeQueue",):
                    b = type(a).__new__(type(a)); b.__setstate__(a.__getstate__()); a = b
                args.append(a)
        finally:
            mpc.set_spawning_popen(None)
        def body():
            try:
                self.target(*args)
                self.exitcode = 0
            except SystemExit as e:
                self.exitcode = e.code if isinstance(e.code, int) else 1
            finally:
                self._dead = True
        th = threading.Thread(target=body, name=self.name, daemon=True)
        S.spawn(th, self.name, proc=self.pid)
    def is_alive(self):
        S.step(f"is_alive({self.pid})")      # observing another process is a scheduling point
        return not self._dead
    def join(self, timeout=None):
        S.step(f"join({self.pid})", pred=lambda: self._dead)
    def kill(self, code=-9):
        self._dead = True; self.exitcode = code; S.kill_thread_group(self.pid)


def sim_kill_tree(p):
    if not p._dead: p.kill(-9)
    p.join()


class SimContext:
    Process = SimProcess
    def Lock(self): return SimLock("ctxlock")
    def BoundedSemaphore(self, v): return SimSem(v, v, "bsem")
    def get_start_method(self): return "loky"
    def get_context(self): return self


class Facade:
    def __init__(self, real, **over): self._real = real; self.__dict__.update(over)
    def __getattr__(self, n): return getattr(self._real, n)


def install(sched):
    global S
    S = sched
    import multiprocessing as mp, multiprocessing.queues as mq
    import loky.process_executor as pe, loky.backend.queues as lq, loky.backend.utils as lu

    def t_start(self):
        if threading.current_thread() in S.threads:
            S.step(f"start({self.name})")
            S.spawn(self, self.name, S.threads[threading.current_thread()]["proc"])
        else:
            _real_start(self)
    def t_join(self, timeout=None):
        if self in S.threads and threading.current_thread() in S.threads:
            S.step(f"tjoin({self.name})", pred=lambda: S.threads[self]["state"] in ("done", "dead"))
        else:
            _real_join(self, timeout)
    threading.Thread.start, threading.Thread.join = t_start, t_join

    simthreading = Facade(threading, Lock=lambda: SimLock("tlock"), Condition=SimCondition)
    simtime = Facade(_rtime, monotonic=lambda: S.now, time=lambda: S.now,
                     sleep=lambda d: (S.step("sleep"), setattr(S, "now", S.now + d)))
    mq.connection = Facade(mq.connection, Pipe=sim_pipe)
    mq.threading = simthreading
    mq.time = simtime
    pe.threading = simthreading
    pe.mp = Facade(mp, Pipe=sim_pipe)
    pe.wait = sim_wait
    pe.sleep = simtime.sleep
    pe.time = lambda: S.now
    pe.kill_process_tree = sim_kill_tree
    pe._USE_PSUTIL = False
    pe.os = Facade(os, getpid=lambda: (S.cur_proc if S.cur_proc != "parent" else os.getpid()))
    lu.time = simtime
    import loky.reusable_executor as ru
    ru.time = simtime
    S.ru = ru
    import weakref
    S.local_names = [(pe, "_global_shutdown"), (pe, "_threads_wakeups"), (pe, "_CURRENT_DEPTH"),
                     (pe, "process_pool_executor_at_exit")]
    S.fresh = {(pe, "_global_shutdown"): lambda: False,
               (pe, "_threads_wakeups"): weakref.WeakKeyDictionary,
               (pe, "_CURRENT_DEPTH"): lambda: 0,
               (pe, "process_pool_executor_at_exit"): lambda: None}
    return pe


def wait_until(pred, label="driver.wait"):
    r = S.step(label, pred=pred)
    return r == "ok"


# ---- scenarios ------------------------------------------------------------------------------
def ok(i): return ("tok", i)
def boom(i): raise ValueError(i)


def scenario_basic(pe, seed):
    e = pe.ProcessPoolExecutor(2, context=SimContext())
    fs = [e.submit(ok, i) for i in range(4)] + [e.submit(boom, 9)]
    done = wait_until(lambda: all(f.done() for f in fs))
    out = [(f.result() if not f.exception() else repr(f.exception())) for f in fs] if done else "HANG"
    e.shutdown(wait=True)
    return out, [t.name for t in threading.enumerate() if t in S.threads and S.threads[t]["state"] not in ("done",)]


def scenario_d3(pe, seed):
    """pool of 1 with idle timeout; let it expire; submit; the new worker crashes while running."""
    e = pe.ProcessPoolExecutor(1, timeout=1.0, context=SimContext())
    f0 = e.submit(ok, 0)
    wait_until(lambda: f0.done())
    S.timeout_prob = 1.0
    wait_until(lambda: len(e._processes) == 0, "driver.wait_idle_exit")
    S.timeout_prob = 0.0
    crashed = {}
    def crash_when_running():
        # environment action: kill the (new) worker as soon as it holds the task
        for p in list(e._processes.values()):
            p.kill(3); crashed[p.pid] = True
    def env_kill():
        for t, r in S.threads.items():
            if r["name"].startswith("SimProcess") and r["name"] != "SimProcess-101" and r["state"] == "ready" \
                    and "bsem.rel" in r.get("hist", []):
                for p in list(e._processes.values()):
                    if p.name == r["name"]:
                        p._dead = True; p.exitcode = 3; S.kill_thread_group(p.pid); crashed[p.pid] = True
                        S.trace.append(("ENV", "kill " + p.name, "ok"))
                        return True
        return False
    S.env_actions = [env_kill]
    f1 = e.submit(ok, 1)
    done = wait_until(lambda: f1.done(), "driver.wait_result")
    return ("resolved: " + repr(f1.exception()) if done else "HANG (future pending at quiescence)",
            "broken=%r" % (e._flags.broken,))


def scenario_d4(pe, seed):
    """reusable executor, grow 2 -> 3 while idle workers may time out during the final liveness poll."""
    ru = S.ru
    ctx = SimContext()
    e = ru.get_reusable_executor(max_workers=2, timeout=1.0, context=ctx)
    fs = [e.submit(ok, i) for i in range(2)]
    wait_until(lambda: all(f.done() for f in fs))
    S.timeout_prob = float(os.environ.get("SIMSPIKE_TP", "0.2"))
    S.max_steps = len(S.trace) + 3000
    e2 = ru.get_reusable_executor(max_workers=3, timeout=1.0, context=ctx)
    return ("resize returned", len(e2._processes), "same" if e2 is e else "new")


if __name__ == "__main__":
    scen = sys.argv[1] if len(sys.argv) > 1 else "basic"
    seed = int(sys.argv[2]) if len(sys.argv) > 2 else 0
    import gc; gc.disable()
    sched = Sched(seed)
    pe = install(sched)
    sched.adopt_current("driver")
    t0 = _rtime.time()
    try:
        res = {"basic": scenario_basic, "d3": scenario_d3, "d4": scenario_d4}[scen](pe, seed)
    except BaseException as ex:
        res = "EXC " + repr(ex)[:80]
    import hashlib
    print(scen, seed, res, "steps=%d" % len(sched.trace), "wall=%.3fs" % (_rtime.time() - t0), "tracehash", hashlib.md5(repr(sched.trace).encode()).hexdigest()[:8], "h100", hashlib.md5(repr(sched.trace[:100]).encode()).hexdigest()[:8])
    if "-v" in sys.argv:
        for x in sched.trace[-60:]: print("   ", x)
    sys.stdout.flush()
    os._exit(0)
