import threading
def raise_unpicklable():
    raise ValueError(threading.Lock())       # the exception object itself cannot be pickled
def ok(i): return i
