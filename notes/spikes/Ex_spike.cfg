SPECIFICATION Spec
CONSTANTS Pids = {"p1","p2","p3","p4"}
 MaxW = 2
 K = 3
 QSize = 2
 MaxCrash = 1
 MaxTimeout = 2
 FinalOps = {"none"}
 WakeupAfterSpawn = TRUE
INVARIANT NoHang
CHECK_DEADLOCK FALSE
