"""THROW-AWAY DESIGN PROBE (E-PURE feasibility for C11): run the real resource_tracker.main(fd) in-process on a
byte stream, with _CLEANUP_FUNCS entries replaced by recorders, a module-level `open` that tags each cleanup call
with the index of the last line read, and sys.excepthook recording the per-line error reports. Compared with a
direct transcription of the property. Result on the pinned tree: 400 random streams, 0 mismatches."""
import os, sys, random
import loky.backend.resource_tracker as rt

def run_stream(lines):
    calls = []; state = {"line": 0}
    r, w = os.pipe()
    real_open = open
    class F:
        def __init__(self, f): self.f = f
        def readline(self):
            l = self.f.readline()
            if l: state["line"] += 1
            return l
        def __enter__(self): return self
        def __exit__(self, *a): self.f.close()
    rt.open = lambda fd, mode: F(real_open(fd, mode))          # module global shadows the builtin
    saved = dict(rt._CLEANUP_FUNCS)
    for k in saved: rt._CLEANUP_FUNCS[k] = (lambda kind: (lambda name: calls.append((kind, name, state["line"]))))(k)
    reports = []
    old_hook, old_sig = sys.excepthook, rt.signal.signal
    sys.excepthook = lambda *a: reports.append((a[0].__name__, state["line"]))
    rt.signal.signal = lambda *a: None                             # do not touch the checker's handlers
    import warnings
    os.write(w, b"".join(lines)); os.close(w)
    with warnings.catch_warnings(record=True) as ws:
        warnings.simplefilter("always")
        so, si = sys.stdout, sys.stdin
        try:
            class Dummy:
                def close(self): pass
            sys.stdin, sys.stdout = Dummy(), Dummy()
            rt.main(r)
        finally:
            sys.stdin, sys.stdout = si, so
            sys.excepthook = old_hook; rt.signal.signal = old_sig; rt._CLEANUP_FUNCS.update(saved); del rt.open
    return calls, reports, [str(x.message)[:60] for x in ws]

def model(lines):
    reg = {"folder": {}, "file": {}, "semlock": {}}; cleaned = []; reports = []
    for i, raw in enumerate(lines, 1):
        try:
            parts = raw.strip().decode("ascii").split(":")
        except UnicodeDecodeError:
            reports.append(i); continue
        cmd, name, t = parts[0], ":".join(parts[1:-1]), parts[-1]
        if cmd == "PROBE": continue
        if t not in reg: reports.append(i); continue
        if cmd == "REGISTER": reg[t][name] = reg[t].get(name, 0) + 1
        elif cmd == "UNREGISTER":
            if name in reg[t]: del reg[t][name]
            else: reports.append(i)
        elif cmd == "MAYBE_UNLINK":
            if name not in reg[t]: reports.append(i); continue
            reg[t][name] -= 1
            if reg[t][name] == 0: del reg[t][name]; cleaned.append((t, name, i))
        else: reports.append(i)
    n = len(lines)
    for t in ("file", "semlock"):
        cleaned += [(t, nm, n) for nm in reg[t]]
    cleaned += [("folder", nm, n) for nm in reg["folder"]]
    return cleaned, reports

if __name__ == "__main__":
    names = ["a", "b:c"]; types = ["folder", "file", "semlock"]
    alphabet = [f"{c}:{n}:{t}\n".encode() for c in ("REGISTER", "UNREGISTER", "MAYBE_UNLINK") for n in names for t in types] + \
               [b"PROBE:0:noop\n", b"REGISTER:a:bogus\n", b"FROB:a:file\n", b"\xff\xfe:a:file\n", b"REGISTER:a\n", b"GARBAGE\n", b"\n"]
    rng = random.Random(0); bad = 0; N = 400
    for k in range(N):
        lines = [rng.choice(alphabet) for _ in range(rng.randint(0, 12))]
        calls, reports, ws = run_stream(lines)
        mc, mr = model(lines)
        if not (sorted(calls) == sorted(mc) and [l for _, l in reports] == mr):
            bad += 1
            if bad <= 5: print("MISMATCH", lines, "\n  impl", calls, reports, "\n  model", mc, mr)
    print("streams", N, "mismatches", bad)
