import time, sys, threading
from loky.process_executor import ProcessPoolExecutor
import loky.process_executor as pe

def init():
    import loky.process_executor as pe
    pe._MAX_MEMORY_LEAK_SIZE = -1
    pe._MEMORY_LEAK_CHECK_DELAY = 0.0

def work(i):
    time.sleep(0.05)
    return i

if __name__ == "__main__":
    e = ProcessPoolExecutor(2, initializer=init)
    futs = [e.submit(work, i) for i in range(12)]
    e.shutdown(wait=False)
    t0=time.time()
    for f in futs:
        try:
            print(f.result(timeout=10), end=" ")
        except Exception as ex:
            print("EXC", type(ex).__name__, end=" ")
    print("\nthreads", [t.name for t in threading.enumerate()], time.time()-t0)
    import os; os._exit(0)
