---- MODULE Ex2_spike ----
(* THROW-AWAY SIZING SPIKE (not the deliverable): the executor protocol at roughly the action
   grain of DESIGN.md appendix B, to calibrate the constants of MC_LokyExecutor_{quick,thorough}.
   Known-defect switches: WakeAfterSpawn (D3 repaired when TRUE), KeepRefs (D1 repaired when TRUE). *)
EXTENDS Naturals, FiniteSets, Sequences, TLC
CONSTANTS Pids, MaxW, K, QSize, MaxCrash, MaxTimeout, FinalOps, WakeAfterSpawn, KeepRefs, BadTasks
Tasks == 1..K
None == 0
(* --algorithm ex2
variables
  shutdownF = FALSE, brokenF = FALSE, execAlive = TRUE, refsDropped = FALSE,
  pending = {}, fut = [t \in Tasks |-> "new"], workIds = <<>>, running = {},
  sem = QSize, buf = <<>>, pipe = <<>>, rq = <<>>, wakeup = 0, wkClosed = FALSE,
  procs = {}, ps = [p \in Pids |-> "unborn"], exitLock = [p \in Pids |-> 0],
  holding = [p \in Pids |-> None],
  mgmt = "free", shut = "free", mgrStarted = FALSE, mgr = "run",
  watch = {}, ready = "none", msg = <<>>, crashes = 0, timeouts = 0,
  cqClosed = FALSE, nStop = 0, nSent = 0, cur = None;
define
  Fresh == {p \in Pids : ps[p] = "unborn"}
  Dead(p) == ps[p] \in {"dead","clean"}
  ShuttingDown == ((~execAlive \/ shutdownF) /\ ~brokenF)
  NeedSpawn == Cardinality(procs) < MaxW /\ Fresh # {}
end define;

macro spawnOne() begin
  with p \in Fresh do
     procs := procs \cup {p}; ps[p] := "idle";
  end with;
end macro;

process user = "U"
variables ut = 1, fop = "none";
begin
 u0: while ut <= K do
 ucheck: await shut = "free";
         if shutdownF \/ brokenF then ut := K + 1; goto u0; else shut := "U"; end if;
 uenq:   pending := pending \cup {ut}; fut[ut] := "pending"; workIds := Append(workIds, ut);
 uwake1: if ~WakeAfterSpawn then wakeup := wakeup + 1; end if;
 ulock:  await mgmt = "free"; mgmt := "U";
 uspawn: while NeedSpawn do spawnOne(); end while;
 ustart: mgrStarted := TRUE;
 uunlock: mgmt := "free";
 uwake2: if WakeAfterSpawn then wakeup := wakeup + 1; end if;
 uret:   shut := "free"; ut := ut + 1;
     end while;
 uf: with op \in FinalOps do fop := op; end with;
 uf2: if fop = "shutdown_nowait" then
          await shut = "free"; shutdownF := TRUE; wakeup := wakeup + 1;
          if ~KeepRefs then refsDropped := TRUE; end if;
      elsif fop = "shutdown_wait" then
          await shut = "free"; shutdownF := TRUE; wakeup := wakeup + 1;
 ujoin:   await mgr # "run";
      elsif fop = "del" then
          await shut = "free"; execAlive := FALSE; wakeup := wakeup + 1;
      end if;
 uend: skip;
end process;

process manager = "M"
begin
 m0: await mgrStarted;
 mloop: while TRUE do
 mfull:   if sem = 0 \/ workIds = <<>> then goto msnap; end if;
 mtake:   cur := Head(workIds); workIds := Tail(workIds);
 mrun:    fut[cur] := "running"; running := running \cup {cur};
 mput:    await sem > 0; sem := sem - 1; buf := Append(buf, cur); goto mfull;
 msnap:   watch := procs;
 mwait:   await rq # <<>> \/ wakeup > 0 \/ (\E p \in watch : Dead(p));
          if rq # <<>> then ready := "res"; elsif wakeup > 0 then ready := "wake"; else ready := "sent"; end if;
 mrecv:   if ready = "res" then msg := Head(rq); rq := Tail(rq);
          elsif ready = "wake" then msg := <<"wake">>;
          else msg := <<"broken">>; end if;
 mclear:  wakeup := 0;
 mp:      if msg[1] = "broken" then
 mbflag:     await shut = "free"; brokenF := TRUE; shutdownF := TRUE;
 mbfail:     while pending # {} do
                with t \in pending do fut[t] := "broken"; pending := pending \ {t}; end with;
             end while;
 mbkill:     while procs # {} do
                with p \in procs do
                   ps[p] := IF Dead(p) THEN ps[p] ELSE "dead"; procs := procs \ {p};
                end with;
             end while;
             mgr := "done"; goto mdone;
          elsif msg[1] = "res" then
 mres:       if msg[2] \in pending then
                pending := pending \ {msg[2]}; fut[msg[2]] := "result"; running := running \ {msg[2]};
             end if;
          elsif msg[1] = "fail" then   \* feeder error already handled by feeder; nothing to do
             skip;
          elsif msg[1] = "pid" then
 mpop:       await mgmt = "free"; procs := procs \ {msg[2]};
 mrel:       exitLock[msg[2]] := 1;
 mjoin:      await Dead(msg[2]);
 mdecide:    if (Cardinality(pending) - Cardinality(running) > 0 \/ Cardinality(running) > Cardinality(procs))
                 /\ execAlive /\ Cardinality(procs) < MaxW then
                 if refsDropped then mgr := "crashed"; goto mdone; end if;
 mrlock:         await mgmt = "free"; mgmt := "M";
 mrspawn:        while NeedSpawn do spawnOne(); end while;
 mrunlock:       mgmt := "free";
             end if;
          end if;
 msd:     if ShuttingDown then
 msflag:     await shut = "free"; shutdownF := TRUE;
 mspend:     if pending = {} then
 mj1:           await mgmt = "free";
                exitLock := [p \in Pids |-> IF p \in procs THEN 1 ELSE exitLock[p]];
                nStop := Cardinality(procs); nSent := 0;
 mj2:           while nSent < nStop /\ (\E p \in procs : ~Dead(p)) do
                   if sem > 0 then sem := sem - 1; buf := Append(buf, None); nSent := nSent + 1; end if;
                end while;
 mj3:           cqClosed := TRUE;
 mj4:           await shut = "free"; wkClosed := TRUE;
 mj5:           while procs # {} do
                   with p \in procs do await Dead(p); procs := procs \ {p}; end with;
                end while;
                mgr := "done"; goto mdone;
             end if;
          end if;
        end while;
 mdone: skip;
end process;

process feeder = "F"
variable fobj = None;
begin
 f0: while TRUE do
 ftake: await buf # <<>>; fobj := Head(buf); buf := Tail(buf);
 fsend: if fobj \in BadTasks then
            \* feeder error path: release slot, fail future, wake manager
            sem := sem + 1;
            if fobj \in pending then pending := pending \ {fobj}; fut[fobj] := "pickle_err"; end if;
            running := running \ {fobj};
 ferrw:     await shut = "free"; if ~wkClosed then wakeup := wakeup + 1; end if;
        else
            pipe := Append(pipe, fobj);
        end if;
     end while;
end process;

process worker \in Pids
begin
 w0: while TRUE do
      await ps[self] # "unborn";
      either \* get an item
        await ps[self] = "idle" /\ pipe # <<>>;
        if Head(pipe) = None then ps[self] := "announce";
        else holding[self] := Head(pipe); ps[self] := "busy"; end if;
        sem := sem + 1; pipe := Tail(pipe);
      or  \* run the task
        await ps[self] = "busy"; ps[self] := "sending";
      or  \* send the result
        await ps[self] = "sending";
        rq := Append(rq, <<"res", holding[self]>>); holding[self] := None; ps[self] := "idle";
      or  \* idle timeout: try management lock
        await ps[self] = "idle" /\ pipe = <<>> /\ timeouts < MaxTimeout /\ mgmt = "free";
        timeouts := timeouts + 1; ps[self] := "announce";
      or  \* announce exit
        await ps[self] = "announce";
        rq := Append(rq, <<"pid", self>>); ps[self] := "exiting";
      or  \* exit handshake
        await ps[self] = "exiting" /\ exitLock[self] = 1;
        ps[self] := "clean";
      or  \* crash
        await ps[self] \in {"idle","busy","sending","announce","exiting"} /\ crashes < MaxCrash;
        crashes := crashes + 1; ps[self] := "dead";
      end either;
     end while;
end process;
end algorithm; *)
\* BEGIN TRANSLATION (removed: run `pcal -nocfg` to regenerate)
\* END TRANSLATION
WorkerCanProgress(p) == (ps[p]="idle" /\ pipe # <<>>) \/ ps[p] \in {"busy","sending","announce"} \/ (ps[p]="exiting" /\ exitLock[p]=1)
MgrBlocked == \/ pc["M"] \in {"mdone","Done"}
              \/ (pc["M"]="mwait" /\ rq = <<>> /\ wakeup = 0 /\ ~\E p \in watch: Dead(p))
              \/ (pc["M"]="mjoin" /\ ~Dead(msg[2]))
              \/ (pc["M"]="mj5" /\ procs # {} /\ ~\E p \in procs: Dead(p))
              \/ (pc["M"]="m0" /\ ~mgrStarted)
              \/ (pc["M"]="mput" /\ sem = 0)
Unresolved == \E x \in Tasks : fut[x] \in {"pending","running"}
UserBlockedOrDone == pc["U"] = "Done" \/ (pc["U"] = "ujoin" /\ mgr = "run")
Hang == UserBlockedOrDone /\ buf = <<>> /\ pc["F"] = "ftake" /\ MgrBlocked /\ (\A p \in Pids: ~WorkerCanProgress(p))
        /\ (Unresolved \/ pc["U"] = "ujoin")
NoHang == ~Hang
SlotConservation == sem + Len(buf) + Len(pipe) + (IF pc["F"] = "fsend" THEN 1 ELSE 0) = QSize
Bounded == Cardinality(procs) <= MaxW
====
