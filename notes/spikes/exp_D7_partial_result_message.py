# S8: worker dies after writing only part of a result message (holding the write lock)
import time, os, gc, struct, signal, faulthandler
from loky.process_executor import ProcessPoolExecutor
def partial_then_die():
    from loky.backend.queues import SimpleQueue
    q = [o for o in gc.get_objects() if isinstance(o, SimpleQueue)][0]
    q._wlock.acquire()
    os.write(q._writer.fileno(), struct.pack("!i", 100000) + b"x" * 10)
    os.kill(os.getpid(), signal.SIGKILL)
if __name__ == "__main__":
    e = ProcessPoolExecutor(1)
    f = e.submit(partial_then_die)
    t0 = time.time()
    try: print(f.result(timeout=15))
    except Exception as ex: print("EXC", type(ex).__name__, round(time.time() - t0, 1))
    print("broken:", e._flags.broken)
    os._exit(0)
