import time, threading, os
from loky.process_executor import ProcessPoolExecutor
def crash():
    time.sleep(0.3); os._exit(3)
def ok(): return 1
if __name__ == "__main__":
    e = ProcessPoolExecutor(1, timeout=0.5)
    print(e.submit(ok).result())
    time.sleep(2.0)
    print("procs after idle", len(e._processes))
    f = e.submit(crash)
    t0=time.time()
    try: print(f.result(timeout=15))
    except Exception as ex: print("EXC", type(ex).__name__, time.time()-t0)
    print("procs", {p.pid:p.exitcode for p in e._processes.values()}, "broken", e._flags.broken)
    os._exit(0)
