import sys, os
sys.path.insert(0, "/verif/.work")
import umod
from loky.process_executor import ProcessPoolExecutor
if __name__ == "__main__":
    e = ProcessPoolExecutor(2)
    f1 = e.submit(umod.ok, 1); f2 = e.submit(umod.raise_unpicklable); f3 = e.submit(umod.ok, 3)
    for f in (f1, f2, f3):
        try: print("result", f.result(timeout=20))
        except BaseException as ex: print("EXC", type(ex).__name__, str(ex)[:70].replace("\n", " "))
    print("broken:", type(e._flags.broken).__name__)
    try: print("fresh submit:", e.submit(umod.ok, 4).result(timeout=20))
    except BaseException as ex: print("fresh submit EXC", type(ex).__name__)
    os._exit(0)
