# S9: done-callback that submits, racing with a shrinking resize from the main thread
import time, os, faulthandler, threading
from loky import get_reusable_executor
def ok(i): return i
if __name__ == "__main__":
    faulthandler.dump_traceback_later(20, exit=True)
    e = get_reusable_executor(max_workers=2, timeout=100)
    e.submit(ok, 0).result()
    box = []
    def cb(f):
        box.append(e.submit(ok, 42))      # what joblib's dispatch-next-batch callback does
    f = e.submit(time.sleep, 1.0)
    f.add_done_callback(cb)
    t0 = time.time()
    e2 = get_reusable_executor(max_workers=1, timeout=100)   # shrink while the job runs
    print("resize returned after", round(time.time() - t0, 2), "nprocs", len(e2._processes))
    print("callback future:", box[0].result(timeout=5))
    os._exit(0)
