SPECIFICATION Spec
CONSTANTS Pids = {"p1","p2","p3","p4"}
 MaxW = 2
 K = 3
 QSize = 2
 MaxCrash = 1
 MaxTimeout = 1
 FinalOps = {"none"}
 WakeAfterSpawn = TRUE
 KeepRefs = TRUE
 BadTasks = {}
INVARIANT NoHang
INVARIANT SlotConservation
CHECK_DEADLOCK FALSE
