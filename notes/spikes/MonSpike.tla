---- MODULE MonSpike ----
(* THROW-AWAY SPIKE: throughput of batched trace validation by a total monitor (C03-like). *)
EXTENDS Naturals, Sequences, FiniteSets, TLC, Json, IOUtils
Traces == JsonDeserialize(IOEnv.TRACES_FILE)       \* sequence of traces; a trace is a sequence of records
VARIABLES tid, l, started, finished, resolved, cancelled, ok, why
vars == <<tid, l, started, finished, resolved, cancelled, ok, why>>
Init == /\ tid \in 1..Len(Traces) /\ l = 1
        /\ started = {} /\ finished = {} /\ resolved = {} /\ cancelled = {} /\ ok = TRUE /\ why = "none"
Ev == Traces[tid][l]
Step ==
  /\ l <= Len(Traces[tid]) /\ ok
  /\ l' = l + 1 /\ tid' = tid
  /\ LET e == Ev IN
     CASE e.ev = "start"  -> /\ started' = started \cup {e.t} /\ UNCHANGED <<finished, resolved, cancelled>>
                             /\ IF e.t \in started THEN ok' = FALSE /\ why' = "executed twice"
                                ELSE IF e.t \in cancelled THEN ok' = FALSE /\ why' = "ran after cancel returned True"
                                ELSE UNCHANGED <<ok, why>>
       [] e.ev = "finish" -> /\ finished' = finished \cup {e.t} /\ UNCHANGED <<started, resolved, cancelled, ok, why>>
       [] e.ev = "cancel" -> /\ cancelled' = IF e.ret THEN cancelled \cup {e.t} ELSE cancelled
                             /\ UNCHANGED <<started, finished, resolved>>
                             /\ IF e.ret /\ e.t \in started THEN ok' = FALSE /\ why' = "cancel True after start" ELSE UNCHANGED <<ok, why>>
       [] e.ev = "resolve" -> /\ resolved' = resolved \cup {e.t} /\ UNCHANGED <<started, finished, cancelled>>
                              /\ IF e.t \in resolved THEN ok' = FALSE /\ why' = "resolved twice"
                                 ELSE IF e.outcome = "result" /\ (e.t \notin finished \/ e.token # e.t) THEN ok' = FALSE /\ why' = "result without own execution"
                                 ELSE UNCHANGED <<ok, why>>
       [] OTHER -> UNCHANGED <<started, finished, resolved, cancelled, ok, why>>
Spec == Init /\ [][Step]_vars
Ok == ok
====
