SPECIFICATION Spec
CONSTANTS Pids = {"p1","p2","p3"}
 MaxW = 1
 K = 2
 QSize = 1
 MaxCrash = 1
 MaxTimeout = 2
 FinalOps = {"none","shutdown_wait"}
 WakeAfterSpawn = TRUE
 KeepRefs = TRUE
 BadTasks = {}
INVARIANT NoHang
INVARIANT SlotConservation
INVARIANT Bounded
CHECK_DEADLOCK FALSE
