---- MODULE Cond_spike ----
EXTENDS Naturals, FiniteSets, TLC
CONSTANTS TW, NW   \* waiters that may time out, waiters that never time out
Waiters == TW \cup NW
(* --algorithm cond
variables lock = "free", sleeping = 0, woken = 0, waitsem = 0,
          got = [w \in Waiters |-> "none"], asserted = FALSE,
          sleptBefore = {}, notifyDone = FALSE;
process waiter \in Waiters
begin
 wl: await lock = "free"; lock := self;
 w1: sleeping := sleeping + 1;
 w2: lock := "free";
 w3: either await waitsem > 0; waitsem := waitsem - 1; got[self] := "woken";
     or await self \in TW; got[self] := "timeout";
     end either;
 w4: woken := woken + 1;
 w5: await lock = "free"; lock := self;
 w6: lock := "free";
end process;
process notifier = "N"
begin
 n0: await lock = "free"; lock := "N";
     sleptBefore := {w \in Waiters : pc[w] \in {"w3"} };
 n1: if waitsem > 0 then asserted := TRUE; waitsem := waitsem - 1; end if;
 n2: while woken > 0 do
        woken := woken - 1;
        if sleeping > 0 then sleeping := sleeping - 1; else asserted := TRUE; end if;
     end while;
 n3: if sleeping > 0 then
        sleeping := sleeping - 1;
 n4:    waitsem := waitsem + 1;
 n5:    await woken > 0; woken := woken - 1;
 n6:    if waitsem > 0 then waitsem := waitsem - 1; end if;
     end if;
 n7: lock := "free"; notifyDone := TRUE;
end process;
end algorithm; *)
\* BEGIN TRANSLATION (removed: run `pcal -nocfg` to regenerate)
\* END TRANSLATION
NoAssert == ~asserted
\* if a never-timing-out waiter was asleep when notify began, notify wakes someone
NotifyWakesOne == notifyDone /\ (sleptBefore \cap NW # {}) => \E w \in Waiters : got[w] = "woken"
AtMostOne == Cardinality({w \in Waiters : got[w] = "woken"}) <= 1
====
