---- MODULE Ex_spike ----
EXTENDS Naturals, FiniteSets, Sequences, TLC
CONSTANTS Pids, MaxW, K, QSize, MaxCrash, MaxTimeout, FinalOps, WakeupAfterSpawn
Tasks == 1..K
None == 0
(* --algorithm ex
variables
  shutdownF = FALSE, brokenF = FALSE, execAlive = TRUE, refsDropped = FALSE,
  pending = {}, fut = [t \in Tasks |-> "new"], workIds = <<>>, running = {},
  sem = QSize, buf = <<>>, pipe = <<>>, rq = <<>>, wakeup = 0,
  procs = {}, pstate = [p \in Pids |-> "unborn"], exitLock = [p \in Pids |-> 0],
  holding = [p \in Pids |-> None],
  mgmt = "free", mgrStarted = FALSE, mgrState = "run",
  watch = {}, msg = <<>>, crashes = 0, timeouts = 0, nsubmitted = 0;
define
  Fresh == {p \in Pids : pstate[p] = "unborn"}
  Dead(p) == pstate[p] \in {"dead","clean"}
  ShuttingDown == ((~execAlive \/ shutdownF) /\ ~brokenF)
  AllResolved == \A t \in Tasks : fut[t] \in {"new","result","broken","cancelled"}
end define;

macro spawnAll() begin
  \* spawn until |procs| = MaxW (bounded by fresh pids)
  with n = IF MaxW - Cardinality(procs) < Cardinality(Fresh) THEN MaxW - Cardinality(procs) ELSE Cardinality(Fresh),
       S \in {X \in SUBSET Fresh : Cardinality(X) = (IF n < 0 THEN 0 ELSE n)} do
     procs := procs \cup S;
     pstate := [p \in Pids |-> IF p \in S THEN "idle" ELSE pstate[p]];
  end with;
end macro;

process user = "U"
variable ut = 1;
begin
 u0: while ut <= K do
 us1:  if shutdownF \/ brokenF then ut := K + 1;
       else
         pending := pending \cup {ut}; fut[ut] := "pending"; workIds := Append(workIds, ut);
         if ~WakeupAfterSpawn then wakeup := wakeup + 1; end if;
 us2:    await mgmt = "free"; mgmt := "U";
 us3:    spawnAll(); mgrStarted := TRUE;
 us4:    mgmt := "free"; if WakeupAfterSpawn then wakeup := wakeup + 1; end if;
         ut := ut + 1;
       end if;
     end while;
 uf: with op \in FinalOps do
       if op = "shutdown_nowait" then
          shutdownF := TRUE; wakeup := wakeup + 1; refsDropped := TRUE;
       elsif op = "del" then
          execAlive := FALSE; wakeup := wakeup + 1;
       else skip;
       end if;
     end with;
end process;

process manager = "M"
begin
 m0: await mgrStarted;
 madd: while TRUE do
        \* add_call_item_to_queue (atomic abstraction)
        if sem > 0 /\ workIds # <<>> then
           with id = Head(workIds) do
             workIds := Tail(workIds); running := running \cup {id};
             fut[id] := "running"; sem := sem - 1; buf := Append(buf, id);
           end with;
           goto madd;
        end if;
 mw1:   watch := procs;
 mw2:   await rq # <<>> \/ wakeup > 0 \/ (\E p \in watch : Dead(p));
        if rq # <<>> then msg := Head(rq); rq := Tail(rq);
        elsif wakeup > 0 then msg := <<"wake">>;
        else msg := <<"broken">>;
        end if;
        wakeup := 0;
 mp:    if msg[1] = "broken" then
           brokenF := TRUE; shutdownF := TRUE;
           fut := [x \in Tasks |-> IF x \in pending THEN "broken" ELSE fut[x]];
           pending := {};
           pstate := [p \in Pids |-> IF p \in procs /\ ~Dead(p) THEN "dead" ELSE pstate[p]];
           procs := {};
           mgrState := "done"; goto mdone;
        elsif msg[1] = "res" then
           if msg[2] \in pending then
              pending := pending \ {msg[2]}; fut[msg[2]] := "result"; running := running \ {msg[2]};
           end if;
        elsif msg[1] = "pid" then
 mpid1:    await mgmt = "free";
           procs := procs \ {msg[2]}; exitLock[msg[2]] := 1;
 mpid2:    await Dead(msg[2]);
           if Cardinality(pending) - Cardinality(running) > 0 \/ Cardinality(running) > Cardinality(procs) then
              if execAlive /\ Cardinality(procs) < MaxW then
                 if refsDropped then mgrState := "crashed"; goto mdone; end if;
 mresp1:         await mgmt = "free"; mgmt := "M";
 mresp2:         spawnAll(); mgmt := "free";
              end if;
           end if;
        end if;
 msd:   if ShuttingDown then
           shutdownF := TRUE;
           if pending = {} then
 mj1:         exitLock := [p \in Pids |-> IF p \in procs THEN 1 ELSE exitLock[p]];
              \* send one sentinel per process (abstract: unbounded room for sentinels)
              buf := buf \o [i \in 1..Cardinality(procs) |-> None];
 mj2:         await \A p \in procs : Dead(p);
              procs := {}; mgrState := "done"; goto mdone;
           end if;
        end if;
      end while;
 mdone: skip;
end process;

process feeder = "F"
begin
 f0: while TRUE do
       await buf # <<>>;
       pipe := Append(pipe, Head(buf)); buf := Tail(buf);
     end while;
end process;

process worker \in Pids
begin
 w0: while TRUE do
      await pstate[self] # "unborn";
      either \* get an item
        await pstate[self] = "idle" /\ pipe # <<>>;
        if Head(pipe) = None then
            pstate[self] := "exiting"; rq := Append(rq, <<"pid", self>>);
        else
            holding[self] := Head(pipe); pstate[self] := "busy"; sem := sem + 1;
        end if;
        pipe := Tail(pipe);
      or  \* finish task
        await pstate[self] = "busy";
        rq := Append(rq, <<"res", holding[self]>>); holding[self] := None; pstate[self] := "idle";
      or  \* idle timeout
        await pstate[self] = "idle" /\ timeouts < MaxTimeout /\ mgmt = "free";
        timeouts := timeouts + 1;
        pstate[self] := "exiting"; rq := Append(rq, <<"pid", self>>);
      or  \* exit handshake
        await pstate[self] = "exiting" /\ exitLock[self] = 1;
        pstate[self] := "clean";
      or  \* crash
        await pstate[self] \in {"idle","busy","exiting"} /\ crashes < MaxCrash;
        crashes := crashes + 1; pstate[self] := "dead";
      end either;
     end while;
end process;
end algorithm; *)
\* BEGIN TRANSLATION (removed: run `pcal -nocfg` to regenerate)
\* END TRANSLATION
WorkerCanProgress(p) == (pstate[p]="idle" /\ pipe # <<>>) \/ pstate[p]="busy" \/ (pstate[p]="exiting" /\ exitLock[p]=1)
MgrBlocked == \/ pc["M"] \in {"mdone","Done"}
              \/ (pc["M"]="mw2" /\ rq = <<>> /\ wakeup = 0 /\ ~\E p \in watch: Dead(p))
              \/ (pc["M"]="mpid2" /\ ~Dead(msg[2]))
              \/ (pc["M"]="mj2" /\ ~\A p \in procs: Dead(p))
              \/ (pc["M"]="m0" /\ ~mgrStarted)
Unresolved == \E x \in Tasks : fut[x] \in {"pending","running"}
Hang == pc["U"]="Done" /\ buf = <<>> /\ MgrBlocked /\ (\A p \in Pids: ~WorkerCanProgress(p)) /\ Unresolved
NoHang == ~Hang
====
